//! C12 scenario: the real may::sync::RwLock under the baton scheduler.
//!
//! 2-4 actors (threads and coroutines, MAYV_RW_KINDS bit i = actor i is a coroutine) run a seeded mix of
//! read / try_read / write / try_write, hold the guard over a few schedule points and drop it.
//! Optional: a poisoning writer first (MAYV_RW_POISON = 1 thread with catch_unwind, 2 coroutine seen through
//! join()), writers that panic while holding the guard (MAYV_RW_PANIC = percent), cancellation of coroutine
//! actors at a random moment (MAYV_RW_CANCEL = how many), and coroutines that hold a read guard across a
//! cancellable sleep so that the guard is dropped by the cancel unwind (MAYV_RW_DROPCANCEL = 1; defect F11).
//! Guards are always taken, also out of PoisonError (`into_inner`).
//!
//! Oracles on the implementation (independent of the model):
//!   * occupancy: never a writer together with a reader or a second writer (counters + torn payload),
//!   * no panic inside any guard drop,
//!   * after all guards are dropped try_write() is not WouldBlock,
//!   * only cancelled coroutines end by a panic that the scenario did not raise itself,
//!   * nobody hangs (harness dead-lock detector).
use mayv::*;
use std::panic::{catch_unwind, AssertUnwindSafe};
use std::sync::atomic::{AtomicBool, AtomicUsize, Ordering};
use std::sync::{Arc, TryLockError};

use may::sync::{RwLock, RwLockReadGuard, RwLockWriteGuard};
use std::alloc::{GlobalAlloc, Layout, System};

/// never reuse an address: the virtual ThreadPark token of the harness is keyed by address, and the trace normaliser
/// numbers objects by address.  (Without it a ThreadPark allocated at the address of a freed one inherited a pending
/// virtual token: a reader thread returned from lock() early in 1 of ~5500 traces, VERIF_SEED=4, and the acceptor
/// rejected the trace - an artifact of the harness, not of RwLock.)
struct Leak;
unsafe impl GlobalAlloc for Leak {
    unsafe fn alloc(&self, l: Layout) -> *mut u8 {
        System.alloc(l)
    }
    unsafe fn dealloc(&self, _p: *mut u8, _l: Layout) {}
}
#[global_allocator]
static GLOBAL: Leak = Leak;

fn envn(k: &str, d: usize) -> usize {
    std::env::var(k).ok().and_then(|s| s.parse().ok()).unwrap_or(d)
}

static WRITERS: AtomicUsize = AtomicUsize::new(0);
static READERS: AtomicUsize = AtomicUsize::new(0);

const OP_READ: u64 = 1;
const OP_TRY_READ: u64 = 2;
const OP_WRITE: u64 = 3;
const OP_TRY_WRITE: u64 = 4;

enum G<'a> {
    R(RwLockReadGuard<'a, usize>),
    W(RwLockWriteGuard<'a, usize>),
}

/// a guard the scenario holds: counted in the occupancy oracle; its drop is logged and watched
struct Held<'a> {
    g: Option<G<'a>>,
}

impl<'a> Held<'a> {
    fn new(g: G<'a>) -> Self {
        let c = mayv::ctx();
        match &g {
            G::R(r) => {
                let n = READERS.fetch_add(1, Ordering::SeqCst) + 1;
                let w = WRITERS.load(Ordering::SeqCst);
                if w != 0 {
                    c.fail(format!("occupancy: read guard handed out while {w} writer(s) hold the lock ({n} readers)"));
                }
                if **r % 2 != 0 {
                    c.fail("occupancy: reader sees a half written payload".into());
                }
            }
            G::W(_) => {
                let w = WRITERS.fetch_add(1, Ordering::SeqCst) + 1;
                let n = READERS.load(Ordering::SeqCst);
                if w != 1 || n != 0 {
                    c.fail(format!("occupancy: write guard handed out while {} other writer(s) and {n} reader(s) hold the lock", w - 1));
                }
            }
        }
        Held { g: Some(g) }
    }

    /// use the guard over a few schedule points
    fn work(&mut self, steps: usize) {
        let c = mayv::ctx();
        match self.g.as_mut().unwrap() {
            G::R(r) => {
                for _ in 0..steps {
                    c.point();
                    if **r % 2 != 0 || WRITERS.load(Ordering::SeqCst) != 0 {
                        c.fail("occupancy: writer active while a read guard is held".into());
                    }
                }
            }
            G::W(w) => {
                **w += 1;
                for _ in 0..steps {
                    c.point();
                    if WRITERS.load(Ordering::SeqCst) != 1 || READERS.load(Ordering::SeqCst) != 0 {
                        c.fail("occupancy: somebody else active while the write guard is held".into());
                    }
                }
                **w += 1;
            }
        }
    }
}

impl Drop for Held<'_> {
    fn drop(&mut self) {
        let c = mayv::ctx();
        if let Some(mut g) = self.g.take() {
            match &mut g {
                G::R(_) => {
                    READERS.fetch_sub(1, Ordering::SeqCst);
                }
                G::W(w) => {
                    // a writer that panicked in the middle leaves an odd payload: make it even again
                    if **w % 2 != 0 {
                        **w += 1;
                    }
                    WRITERS.fetch_sub(1, Ordering::SeqCst);
                }
            }
            c.log("rw.drop", 0, 0, None);
            if catch_unwind(AssertUnwindSafe(move || drop(g))).is_err() {
                c.fail("guard drop panicked".into());
            }
            c.log("rw.dropped", 0, 0, None);
        }
    }
}

/// logs how the actor's body ended (val 1 = by unwinding)
struct ExitLog;
impl Drop for ExitLog {
    fn drop(&mut self) {
        mayv::ctx().log("rw.exit", 0, std::thread::panicking() as u64, None);
    }
}

fn acquire<'a>(l: &'a RwLock<usize>, op: u64) -> Option<Held<'a>> {
    let c = mayv::ctx();
    c.log("rw.call", 0, op, None);
    let (g, res) = match op {
        OP_READ => match l.read() {
            Ok(g) => (Some(G::R(g)), 1),
            Err(p) => (Some(G::R(p.into_inner())), 2),
        },
        OP_TRY_READ => match l.try_read() {
            Ok(g) => (Some(G::R(g)), 1),
            Err(TryLockError::Poisoned(p)) => (Some(G::R(p.into_inner())), 2),
            Err(TryLockError::WouldBlock) => (None, 0),
        },
        OP_WRITE => match l.write() {
            Ok(g) => (Some(G::W(g)), 1),
            Err(p) => (Some(G::W(p.into_inner())), 2),
        },
        _ => match l.try_write() {
            Ok(g) => (Some(G::W(g)), 1),
            Err(TryLockError::Poisoned(p)) => (Some(G::W(p.into_inner())), 2),
            Err(TryLockError::WouldBlock) => (None, 0),
        },
    };
    c.log("rw.ret", 0, res, None);
    g.map(Held::new)
}

struct Par {
    ops: usize,
    panic_pct: u64,
    dropcancel: bool,
    mix: u64,
}

/// body of one actor; `poisoned_seen` is set when a result says Poisoned
fn actor(l: &RwLock<usize>, p: &Par, is_co: bool, started: &AtomicBool, poisoned_seen: &AtomicBool) {
    let c = mayv::ctx();
    let _e = ExitLog;
    started.store(true, Ordering::SeqCst);
    for _ in 0..p.ops {
        let rnd = c.rand();
        let op = match p.mix {
            // 0: uniform, 1: readers mostly, 2: writers mostly, 3: blocking calls only
            1 => [OP_READ, OP_READ, OP_TRY_READ, OP_READ, OP_WRITE, OP_TRY_READ, OP_READ, OP_TRY_WRITE][(rnd % 8) as usize],
            2 => [OP_WRITE, OP_WRITE, OP_TRY_WRITE, OP_READ, OP_WRITE, OP_TRY_READ, OP_WRITE, OP_TRY_WRITE][(rnd % 8) as usize],
            3 => [OP_READ, OP_WRITE, OP_READ, OP_WRITE][(rnd % 4) as usize],
            _ => 1 + rnd % 4,
        };
        let steps = ((rnd >> 8) % 3) as usize;
        let do_panic = (rnd >> 16) % 100 < p.panic_pct;
        let body = || {
            if let Some(mut h) = acquire(l, op) {
                let is_w = matches!(h.g, Some(G::W(_)));
                if l.is_poisoned() {
                    poisoned_seen.store(true, Ordering::SeqCst);
                }
                h.work(steps);
                if is_w && do_panic {
                    c.log("rw.panic", 0, 0, None);
                    panic!("writer panics while holding the guard");
                }
                if !is_w && is_co && p.dropcancel && (rnd >> 24) % 2 == 0 {
                    // a cancellation point while the read guard is held: if the cancel arrives here
                    // the guard is dropped by the unwind
                    may::coroutine::sleep(std::time::Duration::from_micros(50));
                }
                drop(h);
            } else {
                c.yield_now();
            }
        };
        if is_co {
            // a coroutine is not allowed to swallow the cancel panic: let everything propagate
            body();
        } else if catch_unwind(AssertUnwindSafe(body)).is_err() && !(do_panic) {
            c.fail("thread actor: unexpected panic out of an RwLock call".into());
        }
        c.point();
    }
}

fn main() {
    if std::env::var("MAYV_RW_LOUD").is_err() {
        std::panic::set_hook(Box::new(|_| {}));
    }
    let mut cfg = Config::from_env();
    if envn("MAYV_RW_DROPCANCEL", 0) != 0 {
        // In this variant a coroutine blocks (yields) while it is unwinding.  If it were resumed on another
        // worker, std's thread-local panic count would stay 1 on the first worker for ever (observation O2 of
        // DESIGN.md section 7, C13): later guard drops on that worker see thread::panicking() == true and
        // poison locks spuriously - the std Mutex of the harness itself included.  One worker = no migration.
        cfg.workers = 1;
    }
    let n = envn("MAYV_RW_N", 3).clamp(1, 6);
    let kinds = envn("MAYV_RW_KINDS", 0b010);
    let poison = envn("MAYV_RW_POISON", 0);
    let ncancel = envn("MAYV_RW_CANCEL", 0);
    let par = Arc::new(Par {
        ops: envn("MAYV_RW_OPS", 3),
        panic_pct: envn("MAYV_RW_PANIC", 0) as u64,
        dropcancel: envn("MAYV_RW_DROPCANCEL", 0) != 0,
        mix: envn("MAYV_RW_MIX", 0) as u64,
    });
    run(cfg, move |ctx| {
        let l = Arc::new(RwLock::new(0usize));
        let seen = Arc::new(AtomicBool::new(false));

        // optional poisoning writer, finished before anybody else starts
        if poison == 1 {
            let l2 = l.clone();
            let t = ctx.spawn("pz", move || {
                let _e = ExitLog;
                let r = catch_unwind(AssertUnwindSafe(|| {
                    let mut h = acquire(&l2, OP_WRITE).unwrap();
                    h.work(1);
                    mayv::ctx().log("rw.panic", 0, 0, None);
                    panic!("poison");
                }));
                if r.is_ok() {
                    mayv::ctx().fail("poisoning closure did not panic".into());
                }
            });
            ctx.join(t);
        } else if poison == 2 {
            let l2 = l.clone();
            let h = unsafe {
                may::coroutine::Builder::new().name("pz".into()).spawn(move || {
                    let _e = ExitLog;
                    let mut h = acquire(&l2, OP_WRITE).unwrap();
                    h.work(1);
                    mayv::ctx().log("rw.panic", 0, 0, None);
                    panic!("poison");
                })
            }
            .unwrap();
            if h.join().is_ok() {
                ctx.fail("poisoning coroutine did not panic".into());
            }
        }
        if poison != 0 && !l.is_poisoned() {
            ctx.fail("lock not poisoned after a writer panicked while holding the guard".into());
        }

        // hand-over / cancel stress: main holds the write guard, a coroutine parks in write() or read(),
        // main drops the guard (hand-over) and cancels the waiter at about the same moment
        let hc = envn("MAYV_RW_HC", 0);
        for round in 0..hc {
            let mut held = acquire(&l, OP_WRITE).unwrap();
            held.work(0);
            let started = Arc::new(AtomicBool::new(false));
            let (l2, st2, s2) = (l.clone(), started.clone(), seen.clone());
            let rd = ctx.rand();
            let op = if rd % 3 == 0 { OP_READ } else { OP_WRITE };
            let h = unsafe {
                may::coroutine::Builder::new().name(format!("w{round}")).spawn(move || {
                    let _e = ExitLog;
                    st2.store(true, Ordering::SeqCst);
                    if let Some(mut g) = acquire(&l2, op) {
                        if l2.is_poisoned() {
                            s2.store(true, Ordering::SeqCst);
                        }
                        g.work(1);
                        drop(g);
                    }
                })
            }
            .unwrap();
            while !started.load(Ordering::SeqCst) {
                ctx.yield_now();
            }
            for _ in 0..(rd >> 8) % 24 {
                ctx.point();
            }
            if (rd >> 16) % 2 == 0 {
                drop(held);
                for _ in 0..(rd >> 24) % 6 {
                    ctx.point();
                }
                ctx.log("rw.cancel", round as u64, 0, None);
                unsafe { h.coroutine().cancel() };
            } else {
                ctx.log("rw.cancel", round as u64, 0, None);
                unsafe { h.coroutine().cancel() };
                for _ in 0..(rd >> 24) % 6 {
                    ctx.point();
                }
                drop(held);
            }
            let _ = h.join();
        }

        let mut threads = vec![];
        let mut cos = vec![];
        for i in 0..n {
            let (l2, p2, s2) = (l.clone(), par.clone(), seen.clone());
            let started = Arc::new(AtomicBool::new(false));
            let st2 = started.clone();
            if kinds >> i & 1 == 1 {
                let h = unsafe {
                    may::coroutine::Builder::new().name(format!("c{i}")).spawn(move || actor(&l2, &p2, true, &st2, &s2))
                }
                .unwrap();
                cos.push((h, started, false));
            } else {
                threads.push(ctx.spawn(&format!("t{i}"), move || actor(&l2, &p2, false, &st2, &s2)));
            }
        }
        // cancellation of (some of) the coroutines at a seeded moment
        let mut left = ncancel.min(cos.len());
        let mut k = 0;
        while left > 0 {
            let wait = ctx.rand() % 40;
            for _ in 0..wait {
                ctx.point();
            }
            while !cos[k].1.load(Ordering::SeqCst) && !cos[k].0.is_done() {
                ctx.yield_now();
            }
            ctx.log("rw.cancel", k as u64, 0, None);
            unsafe { cos[k].0.coroutine().cancel() };
            cos[k].2 = true;
            k += 1;
            left -= 1;
        }
        for t in threads {
            ctx.join(t);
        }
        for (h, _, cancelled) in cos {
            let r = h.join();
            if r.is_err() && !cancelled && par.panic_pct == 0 {
                ctx.fail("a coroutine that was never cancelled ended by a panic".into());
            }
        }
        if WRITERS.load(Ordering::SeqCst) != 0 || READERS.load(Ordering::SeqCst) != 0 {
            ctx.fail("scenario bookkeeping: guards still counted after every actor ended".into());
        }
        // every guard has been dropped: the lock must be free again
        ctx.log("rw.call", 0, OP_TRY_WRITE, None);
        let r = l.try_write();
        match r {
            Err(TryLockError::WouldBlock) => {
                ctx.log("rw.ret", 0, 0, None);
                ctx.fail("after all guards were dropped try_write() answers WouldBlock: the lock was not released".into());
            }
            Ok(g) => {
                ctx.log("rw.ret", 0, 1, None);
                ctx.log("rw.drop", 0, 0, None);
                drop(g);
            }
            Err(TryLockError::Poisoned(p)) => {
                ctx.log("rw.ret", 0, 2, None);
                if poison == 0 && par.panic_pct == 0 {
                    ctx.fail("lock poisoned although no writer panicked".into());
                }
                ctx.log("rw.drop", 0, 0, None);
                drop(p.into_inner());
            }
        }
        ctx.record(false);
    })
}
