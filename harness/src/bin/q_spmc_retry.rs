//! C04: a steal whose CAS on the head word FAILED retries with fresh values of everything it loads.
//!
//! Script (one owner, one stealer; the stealer is held before its first CAS on the head word by a site-directed stall):
//!   owner pushes 0..30 into block A; the stealer loads head = (A,0), tail = (A,30) and stalls before the CAS;
//!   owner pushes 30..35 (A is full, block B holds 32,33,34) and pops 0..32: head = (B,0);
//!   the stealer's CAS fails; its retry must see head = (B,0) AND the tail index 3 of block B.
//! Oracles: the stolen batch is exactly 32,33,34 in push order, the owner finds the queue empty afterwards, every task
//! is obtained exactly once, the stealer completes (no over-claim: a claim beyond the published tail waits for pushes
//! that never come).  Without the stall the stealer simply takes its share of 0..30 (checked the same way).
use mayv::*;
use std::sync::atomic::{AtomicBool, Ordering::SeqCst};
use std::sync::{Arc, Mutex};

fn main() {
    let cfg = Config::from_env();
    run(cfg, move |ctx| {
        let (steal, mut local) = may_queue::spmc::local::<usize>();
        let (_vs, mut thief_q) = may_queue::spmc::local::<usize>();
        for i in 0..30 {
            local.push_back(i);
        }
        let done = Arc::new(AtomicBool::new(false));
        let got = Arc::new(Mutex::new(Vec::<usize>::new()));
        let (d2, g2) = (done.clone(), got.clone());
        let th = ctx.spawn("stealer", move || {
            let r = steal.steal_into(&mut thief_q);
            let mut v = vec![];
            while let Some(x) = thief_q.pop() {
                v.push(x);
            }
            v.extend(r);
            *g2.lock().unwrap() = v;
            d2.store(true, SeqCst);
        });
        // the stealer has done its loads (and is stalled, in the directed runs) by now
        ctx.sleep_ns(2_000_000);
        let mut mine = vec![];
        for i in 30..35 {
            local.push_back(i);
        }
        for _ in 0..32 {
            if done.load(SeqCst) {
                break;
            }
            match local.pop() {
                Some(v) => mine.push(v),
                None => break,
            }
        }
        let mut n = 0;
        while !done.load(SeqCst) {
            ctx.sleep_ns(10_000_000);
            n += 1;
            if n > 400 {
                ctx.fail(format!("the stealer never completed (a claim beyond the published tail?); the owner's pop now returns {:?}", local.pop()));
                return;
            }
        }
        ctx.join(th);
        while let Some(v) = local.pop() {
            mine.push(v);
        }
        let stolen = got.lock().unwrap().clone();
        let mut all: Vec<usize> = mine.iter().chain(stolen.iter()).copied().collect();
        all.sort();
        if all != (0..35).collect::<Vec<_>>() {
            ctx.fail(format!("tasks obtained: owner {mine:?}, stealer {stolen:?}: not every task exactly once"));
        }
        if stolen.windows(2).any(|w| w[0] > w[1]) {
            ctx.fail(format!("the stolen batch {stolen:?} is not in push order"));
        }
    })
}
