//! C18 scenario: I/O timeouts and cancellation of blocked socket I/O on real sockets under the virtual clock.
//!
//! MAYV_MODE=timed (default)   MAYV_SOCK = unixstream | unixdgram | tcp | udp, MAYV_CONNS connections.  Per connection a
//!   reader (MAYV_RD = co | th | mix) does MAYV_ROUNDS receive operations with `set_read_timeout(d)`, d drawn per round
//!   from {1 ms, 1.5 ms, 10 ms, 999 999 ns} (MAYV_DUR=ns fixes it; MAYV_NOTO=k: every k-th round has no timeout and its
//!   data always comes).  A feeder thread learns the start of every round over a may channel and sends the next message
//!   after a delay chosen around the deadline: 0, d/2, d-1us, d, armed(d), armed(d)+1us, 2*armed(d), or never.
//!   Oracles (virtual clock): a receive reports TimedOut/WouldBlock only at or after call + d; without injected stalls
//!   (no upper bound is checked: the harness lets virtual time pass when every runnable thread spins, which delays
//!   a caller like a stall; for the same reason "unread data was sent before call + d, yet TimedOut" is only counted,
//!   MAYV_STRICT_INTIME=1 turns it into an oracle); data is the next part of the stream; an operation after a timed-out or an early-completed one obeys the same rules (a timer left
//!   over from operation k would make operation k+1 fail early); nothing hangs.
//! MAYV_MODE=cancel   a victim coroutine owns one end of a connection (MAYV_WHAT=read, default) or a listener
//!   (MAYV_WHAT=accept) and blocks in it in a loop, with MAYV_DUR as timeout if given; it is cancelled after a seeded
//!   delay.  Oracles: join returns Err with a non-message payload (Cancel); the peer then reads end of stream (what the
//!   victim owned was closed) / a connect to the dead listener fails; a second connection that transfers a checked
//!   stream meanwhile and a timed reader are not disturbed; nothing hangs.
//! MAYV_MODE=shared   (demonstration of a finding, not part of the regular check) two coroutines use one
//!   `Arc<UnixDatagram>` one after the other: A blocks in recv with timeout d and is cancelled, then B calls recv with
//!   timeout d.  B must not report TimedOut before its own call + d.
//! MAYV_MODE=connect  TCP: `connect_timeout` to a listener whose backlog is full (never answers) must fail with
//!   TimedOut no earlier than d; to a live listener it must succeed and the timer it armed must not fire into the
//!   later reads on the new stream.
use mayv::*;
use std::io::{Read, Write};
use std::os::unix::io::AsRawFd;
use std::sync::atomic::{AtomicBool, AtomicU64, Ordering};
use std::sync::{Arc, Mutex};
use std::time::Duration;

// the system-call tap: results of the non-blocking calls on tracked sockets, for the trace acceptor of IoModel
#[path = "iotap/tap.rs"]
mod tap;
/// "not tracked"
const NOF: u64 = u64::MAX;

fn envs(k: &str, d: &str) -> String {
    std::env::var(k).unwrap_or_else(|_| d.into())
}
fn envn(k: &str, d: u64) -> u64 {
    std::env::var(k).ok().and_then(|s| s.parse().ok()).unwrap_or(d)
}

struct Rng(u64);
impl Rng {
    fn next(&mut self) -> u64 {
        self.0 ^= self.0 >> 12;
        self.0 ^= self.0 << 25;
        self.0 ^= self.0 >> 27;
        self.0.wrapping_mul(0x2545F4914F6CDD1D)
    }
}

#[inline(never)]
fn brk() {
    may::verif::point("app.op", 0, 0);
}

#[inline]
fn gen(s: u64, off: u64) -> u8 {
    let x = (off.wrapping_add(s)).wrapping_mul(0x9E3779B97F4A7C15);
    ((x >> 29) ^ (x >> 47) ^ off) as u8
}

const MS: u64 = 1_000_000;
const DURS: [u64; 4] = [1_000_000, 1_500_000, 10_000_000, 999_999];
/// what AtomicDuration arms for a requested d (whole milliseconds, rounded up; C08)
fn armed(d: u64) -> u64 {
    d.div_ceil(MS) * MS
}
fn stalls_on() -> bool {
    std::env::var("MAYV_STALL_AT").is_ok() || std::env::var("MAYV_STALL").map(|s| s.split(':').next().and_then(|n| n.parse::<u64>().ok()).unwrap_or(0) > 0).unwrap_or(false)
}
fn is_timeout(e: &std::io::Error) -> bool {
    matches!(e.kind(), std::io::ErrorKind::TimedOut | std::io::ErrorKind::WouldBlock)
}

type Job = Box<dyn FnOnce() + Send + 'static>;

/// see s_io.rs: a plain thread that used may I/O must not exit while the scenario runs
fn spawn_thread_endpoint(ctx: &Ctx, name: &str, idx: usize, job: Job) -> Box<dyn FnOnce()> {
    use may::verif::Hooks;
    const DONE_KEY: usize = 0x6000_0000;
    const REST_KEY: usize = 0x6100_0000;
    let _ = ctx.spawn(name, move || {
        job();
        let h: &dyn Hooks = mayv::ctl();
        h.wake(DONE_KEY + idx);
        h.block(REST_KEY + idx, None);
    });
    Box::new(move || {
        let h: &dyn Hooks = mayv::ctl();
        h.block(DONE_KEY + idx, None);
    })
}

fn start(ctx: &Ctx, name: String, in_co: bool, idx: usize, job: Job) -> Box<dyn FnOnce()> {
    if in_co {
        let h = unsafe { may::coroutine::Builder::new().name(name.clone()).spawn(job).unwrap() };
        Box::new(move || {
            if h.join().is_err() {
                mayv::ctx().fail(format!("coroutine {name} panicked"));
            }
        })
    } else {
        spawn_thread_endpoint(ctx, &name, idx, job)
    }
}

/// one end of a connection, reduced to what the scenario needs
trait End: Send {
    fn set_rto(&self, d: Option<Duration>);
    fn recv(&mut self, buf: &mut [u8]) -> std::io::Result<usize>;
    fn send(&mut self, buf: &[u8]) -> std::io::Result<usize>;
    fn dgram(&self) -> bool;
    fn rawfd(&self) -> i32;
}
impl End for may::os::unix::net::UnixStream {
    fn set_rto(&self, d: Option<Duration>) {
        self.set_read_timeout(d).expect("set_read_timeout")
    }
    fn recv(&mut self, buf: &mut [u8]) -> std::io::Result<usize> {
        self.read(buf)
    }
    fn send(&mut self, buf: &[u8]) -> std::io::Result<usize> {
        self.write(buf)
    }
    fn dgram(&self) -> bool {
        false
    }
    fn rawfd(&self) -> i32 {
        self.as_raw_fd()
    }
}
impl End for may::net::TcpStream {
    fn set_rto(&self, d: Option<Duration>) {
        self.set_read_timeout(d).expect("set_read_timeout")
    }
    fn recv(&mut self, buf: &mut [u8]) -> std::io::Result<usize> {
        self.read(buf)
    }
    fn send(&mut self, buf: &[u8]) -> std::io::Result<usize> {
        self.write(buf)
    }
    fn dgram(&self) -> bool {
        false
    }
    fn rawfd(&self) -> i32 {
        self.as_raw_fd()
    }
}
impl End for may::os::unix::net::UnixDatagram {
    fn set_rto(&self, d: Option<Duration>) {
        self.set_read_timeout(d).expect("set_read_timeout")
    }
    fn recv(&mut self, buf: &mut [u8]) -> std::io::Result<usize> {
        may::os::unix::net::UnixDatagram::recv(self, buf)
    }
    fn send(&mut self, buf: &[u8]) -> std::io::Result<usize> {
        may::os::unix::net::UnixDatagram::send(self, buf)
    }
    fn dgram(&self) -> bool {
        true
    }
    fn rawfd(&self) -> i32 {
        self.as_raw_fd()
    }
}
impl End for may::net::UdpSocket {
    fn set_rto(&self, d: Option<Duration>) {
        self.set_read_timeout(d).expect("set_read_timeout")
    }
    fn recv(&mut self, buf: &mut [u8]) -> std::io::Result<usize> {
        may::net::UdpSocket::recv(self, buf)
    }
    fn send(&mut self, buf: &[u8]) -> std::io::Result<usize> {
        may::net::UdpSocket::send(self, buf)
    }
    fn dgram(&self) -> bool {
        true
    }
    fn rawfd(&self) -> i32 {
        self.as_raw_fd()
    }
}

fn tcp_pair(ctx: &Ctx) -> Option<(may::net::TcpStream, may::net::TcpStream)> {
    let l = may::net::TcpListener::bind("127.0.0.1:0").expect("bind");
    let addr = l.local_addr().expect("addr");
    let acc = unsafe { may::coroutine::Builder::new().spawn(move || l.accept().map(|x| x.0)).unwrap() };
    let a = may::net::TcpStream::connect(addr).expect("connect");
    match acc.join() {
        Ok(Ok(b)) => {
            a.set_nodelay(true).ok();
            b.set_nodelay(true).ok();
            Some((a, b))
        }
        _ => {
            ctx.fail("accept failed".into());
            None
        }
    }
}

fn make_pair(ctx: &Ctx, sock: &str) -> Option<(Box<dyn End>, Box<dyn End>)> {
    Some(match sock {
        "unixstream" => {
            let (a, b) = may::os::unix::net::UnixStream::pair().expect("pair");
            (Box::new(a), Box::new(b))
        }
        "unixdgram" => {
            let (a, b) = may::os::unix::net::UnixDatagram::pair().expect("pair");
            (Box::new(a), Box::new(b))
        }
        "tcp" => {
            let (a, b) = tcp_pair(ctx)?;
            (Box::new(a), Box::new(b))
        }
        "udp" => {
            let a = may::net::UdpSocket::bind("127.0.0.1:0").expect("bind");
            let b = may::net::UdpSocket::bind("127.0.0.1:0").expect("bind");
            a.connect(b.local_addr().unwrap()).expect("connect");
            b.connect(a.local_addr().unwrap()).expect("connect");
            (Box::new(a), Box::new(b))
        }
        o => panic!("MAYV_SOCK={o}"),
    })
}

/// what feeder and reader of one connection share
struct Conn {
    seed: u64,
    /// (virtual time the send returned, stream bytes sent so far / messages sent so far)
    sent: Mutex<Vec<(u64, u64)>>,
    rounds_done: AtomicBool,
}

const MSG: usize = 24;

// -------------------------------------------------------------------------------------------- timed

fn timed_reader(mut b: Box<dyn End>, cn: usize, conn: Arc<Conn>, tx: may::sync::mpsc::Sender<(u64, u64, u64)>, mut rng: Rng, rounds: u64, fixed: u64, noto: u64, tf: u64) {
    let c = mayv::ctx();
    let stalls = stalls_on();
    let dgram = b.dgram();
    let mut off = 0u64; // stream offset (stream) or message index (datagram) consumed so far
    let mut buf = [0u8; 64];
    let (mut n_ok, mut n_to, mut n_late) = (0u64, 0u64, 0u64);
    for r in 0..rounds {
        let no_timeout = noto != 0 && (r + 1) % noto == 0;
        let d = if fixed != 0 { fixed } else { DURS[(rng.next() % 4) as usize] };
        b.set_rto(if no_timeout { None } else { Some(Duration::from_nanos(d)) });
        // where the data of this round lands relative to the deadline
        let a = armed(d);
        let delay = if no_timeout {
            [0, d / 2, a, 2 * a][(rng.next() % 4) as usize]
        } else {
            [0, d / 2, d - 1000, d, a, a + 1000, 2 * a, u64::MAX][(rng.next() % 8) as usize]
        };
        let t0 = c.now();
        let _ = tx.send((r, t0, delay));
        brk();
        let want = 1 + (rng.next() % 40) as usize;
        if tf != NOF {
            tap::call_rd(tf, dgram, if no_timeout { None } else { Some(a) }, if dgram { 64 } else { want });
        }
        let res = b.recv(&mut buf[..if dgram { 64 } else { want }]);
        if tf != NOF {
            match &res {
                Ok(n) => tap::ret_ok(tf, off, *n),
                Err(e) if is_timeout(e) => tap::ret_timeout(tf),
                Err(_) => tap::ret_err(tf),
            }
        }
        let t1 = c.now();
        match res {
            Ok(0) => {
                c.fail(format!("conn {cn} round {r}: receive returned 0 although the peer is alive"));
                return;
            }
            Ok(n) => {
                n_ok += 1;
                if dgram {
                    if n != MSG {
                        c.fail(format!("conn {cn} round {r}: datagram of {n} bytes, {MSG} were sent"));
                    }
                    if let Some(i) = (0..n.min(MSG)).find(|&i| buf[i] != gen(conn.seed, off * MSG as u64 + i as u64)) {
                        c.fail(format!("conn {cn} round {r}: datagram {off} differs at byte {i} (lost, duplicated or reordered message)"));
                    }
                    off += 1;
                } else {
                    if let Some(i) = (0..n).find(|&i| buf[i] != gen(conn.seed, off + i as u64)) {
                        c.fail(format!("conn {cn} round {r}: stream differs at offset {}", off + i as u64));
                    }
                    off += n as u64;
                }
                let total = conn.sent.lock().unwrap().last().map(|x| x.1).unwrap_or(0);
                if off > total {
                    c.fail(format!("conn {cn} round {r}: received {off}, only {total} sent"));
                }
            }
            Err(e) if is_timeout(&e) => {
                n_to += 1;
                let el = t1 - t0;
                if no_timeout {
                    c.fail(format!("conn {cn} round {r}: receive without a timeout reported {e:?} after {el} ns (a timer of an earlier operation fired into it)"));
                } else {
                    if el < d {
                        c.fail(format!("conn {cn} round {r}: timeout {d} ns reported after only {el} ns (call at {t0})"));
                    }
                    // data that was sent before call + d but reported as a timeout: possible when the selector's
                    // worker is kept busy (or descheduled) from before the arrival until after the deadline, because
                    // `Selector::select` polls epoll first and reads the clock for the timers afterwards.  The harness
                    // produces that by letting time pass while the worker spins in the steal loop.  Counted; an
                    // oracle only with MAYV_STRICT_INTIME=1 (replay of the observation).
                    let early: Option<(u64, u64)> = conn.sent.lock().unwrap().iter().copied().find(|&(tw, cum)| tw < t0 + d && cum > off);
                    if let Some((tw, cum)) = early {
                        n_late += 1;
                        if !stalls && envn("MAYV_STRICT_INTIME", 0) == 1 {
                            c.fail(format!("conn {cn} round {r}: TimedOut at {t1} although data (up to {cum}, consumed {off}) had been sent at {tw}, before call + d = {}", t0 + d));
                        }
                    }
                }
            }
            Err(e) => {
                c.fail(format!("conn {cn} round {r}: receive failed: {e}"));
                return;
            }
        }
    }
    conn.rounds_done.store(true, Ordering::SeqCst);
    drop(tx);
    println!("SUMMARY conn={cn} ok={n_ok} timeouts={n_to} (data sent in time but timed out: {n_late}) consumed={off}");
}

fn timed_feeder(mut a: Box<dyn End>, cn: usize, conn: Arc<Conn>, rx: may::sync::mpsc::Receiver<(u64, u64, u64)>, tf: u64) {
    let c = mayv::ctx();
    let dgram = a.dgram();
    let mut cum = 0u64;
    while let Ok((_r, t0, delay)) = rx.recv() {
        if delay == u64::MAX {
            continue;
        }
        let target = t0 + delay;
        let now = c.now();
        if target > now {
            c.sleep_ns(target - now);
        }
        let base = if dgram { cum * MSG as u64 } else { cum };
        let msg: Vec<u8> = (0..MSG as u64).map(|i| gen(conn.seed, base + i)).collect();
        brk();
        if tf != NOF {
            tap::call_wr(tf, dgram, cum, MSG);
        }
        let res = a.send(&msg);
        if tf != NOF {
            match &res {
                Ok(n) => tap::ret_ok(tf, cum, *n),
                Err(_) => tap::ret_err(tf),
            }
        }
        match res {
            Ok(n) if n == MSG => {}
            Ok(n) => c.fail(format!("conn {cn}: send of {MSG} bytes reported {n}")),
            Err(e) => {
                // the reader may be gone already after its last round
                if !conn.rounds_done.load(Ordering::SeqCst) {
                    c.fail(format!("conn {cn}: send failed: {e}"));
                }
                break;
            }
        }
        cum += if dgram { 1 } else { MSG as u64 };
        conn.sent.lock().unwrap().push((c.now(), cum));
    }
}

fn mode_timed(ctx: &Ctx) {
    let sock = envs("MAYV_SOCK", "unixstream");
    let conns = envn("MAYV_CONNS", 1) as usize;
    let rounds = envn("MAYV_ROUNDS", 6);
    let fixed = envn("MAYV_DUR", 0);
    let noto = envn("MAYV_NOTO", 0);
    let rd_sel = envs("MAYV_RD", "mix");
    let mut joins = vec![];
    for cn in 0..conns {
        let Some((a, b)) = make_pair(ctx, &sock) else { return };
        // MAYV_TAP=1: the sockets of unix connections are tracked (model descriptors 2 cn, 2 cn + 1)
        let tracked = tap::on() && (sock == "unixstream" || sock == "unixdgram");
        let (tfa, tfb) = if tracked { (2 * cn as u64, 2 * cn as u64 + 1) } else { (NOF, NOF) };
        if tracked {
            tap::track(a.rawfd(), tfa, a.dgram());
            tap::track(b.rawfd(), tfb, b.dgram());
        }
        let conn = Arc::new(Conn { seed: ctx.rand(), sent: Mutex::new(vec![]), rounds_done: AtomicBool::new(false) });
        let (tx, rx) = may::sync::mpsc::channel();
        let in_co = match rd_sel.as_str() {
            "co" => true,
            "th" => false,
            _ => ctx.rand() % 2 == 0,
        };
        let rng = Rng(ctx.rand() | 1);
        let (c1, c2) = (conn.clone(), conn.clone());
        joins.push(start(ctx, format!("c{cn}.f"), false, 2 * cn, Box::new(move || timed_feeder(a, cn, c1, rx, tfa))));
        joins.push(start(ctx, format!("c{cn}.r"), in_co, 2 * cn + 1, Box::new(move || timed_reader(b, cn, c2, tx, rng, rounds, fixed, noto, tfb))));
    }
    for j in joins {
        j();
    }
}

// ------------------------------------------------------------------------------------------- cancel

/// a checked stream transfer on its own connection, running while the cancel happens
fn bystander(ctx: &Ctx, joins: &mut Vec<Box<dyn FnOnce()>>, base: usize) {
    let (mut a, mut b) = may::os::unix::net::UnixStream::pair().expect("pair");
    // MAYV_TAP=1: model descriptors 2, 3; a small stream, so that no write finds the buffer full
    let (tfa, tfb) = if tap::on() { (2u64, 3u64) } else { (NOF, NOF) };
    if tap::on() {
        tap::track(a.as_raw_fd(), tfa, false);
        tap::track(b.as_raw_fd(), tfb, false);
    }
    let seed = ctx.rand();
    let total = if tap::on() { 300 + ctx.rand() % 600 } else { 3000 + ctx.rand() % 6000 };
    let (r1, r2) = (ctx.rand() | 1, ctx.rand() | 1);
    joins.push(start(ctx, "by.w".into(), true, base, Box::new(move || {
        let c = mayv::ctx();
        let mut rng = Rng(r1);
        let mut off = 0u64;
        while off < total {
            let n = (1 + rng.next() % if tap::on() { 70 } else { 700 }).min(total - off) as usize;
            let buf: Vec<u8> = (0..n as u64).map(|i| gen(seed, off + i)).collect();
            brk();
            if tfa != NOF {
                tap::call_wr(tfa, false, off, n);
            }
            let res = a.write(&buf);
            if tfa != NOF {
                match &res {
                    Ok(k) => tap::ret_ok(tfa, off, *k),
                    Err(_) => tap::ret_err(tfa),
                }
            }
            match res {
                Ok(k) if k >= 1 && k <= n => off += k as u64,
                other => {
                    c.fail(format!("bystander: write failed: {other:?}"));
                    return;
                }
            }
            if rng.next() % 4 == 0 {
                may::coroutine::sleep(Duration::from_micros(300));
            }
        }
    })));
    let by_co = ctx.rand() % 2 == 0;
    let by_co = match envs("MAYV_RD", "mix").as_str() {
        "co" => true,
        "th" => false,
        _ => by_co,
    };
    joins.push(start(ctx, "by.r".into(), by_co, base + 1, Box::new(move || {
        let c = mayv::ctx();
        let mut rng = Rng(r2);
        let mut off = 0u64;
        let mut buf = [0u8; 512];
        loop {
            let n = 1 + (rng.next() % if tap::on() { 64 } else { 512 }) as usize;
            brk();
            if tfb != NOF {
                tap::call_rd(tfb, false, None, n);
            }
            let res = b.read(&mut buf[..n]);
            if tfb != NOF {
                match &res {
                    Ok(k) => tap::ret_ok(tfb, off, *k),
                    Err(_) => tap::ret_err(tfb),
                }
            }
            match res {
                Ok(0) => break,
                Ok(k) => {
                    if let Some(i) = (0..k).find(|&i| buf[i] != gen(seed, off + i as u64)) {
                        c.fail(format!("bystander: stream differs at offset {}", off + i as u64));
                        return;
                    }
                    off += k as u64;
                }
                Err(e) => {
                    c.fail(format!("bystander: read failed: {e} (another coroutine's cancel or timeout disturbed it)"));
                    return;
                }
            }
        }
        if off != total {
            c.fail(format!("bystander: end of stream after {off} of {total} bytes"));
        }
    })));
}

fn check_cancel_join<T>(ctx: &Ctx, r: Result<T, Box<dyn std::any::Any + Send>>, what: &str) {
    match r {
        Ok(_) => ctx.fail(format!("{what}: join of the cancelled coroutine returned Ok")),
        Err(e) => {
            if e.downcast_ref::<String>().is_some() || e.downcast_ref::<&str>().is_some() {
                ctx.fail(format!("{what}: the cancelled coroutine ended with an ordinary panic, not with Cancel"));
            }
        }
    }
}

fn cancel_delay(ctx: &Ctx) {
    let dur = envn("MAYV_DUR", 0);
    let mut opts = vec![0u64, 1_000, 300_000, 700_000, 1_000_000, 2_500_000];
    if dur != 0 {
        opts.extend_from_slice(&[armed(dur) - 1_000, armed(dur), armed(dur) + 1_000]);
    }
    let d = opts[(ctx.rand() % opts.len() as u64) as usize];
    if d > 0 {
        ctx.sleep_ns(d);
    }
    for _ in 0..ctx.rand() % 12 {
        brk();
    }
}

fn mode_cancel(ctx: &Ctx) {
    let what = envs("MAYV_WHAT", "read");
    let sock = envs("MAYV_SOCK", "unixstream");
    let dur = envn("MAYV_DUR", 0);
    let mut joins: Vec<Box<dyn FnOnce()>> = vec![];
    if envn("MAYV_BYSTANDER", 1) == 1 {
        bystander(ctx, &mut joins, 10);
    }
    let dropped = Arc::new(AtomicBool::new(false));
    struct Flag(Arc<AtomicBool>);
    impl Drop for Flag {
        fn drop(&mut self) {
            self.0.store(true, Ordering::SeqCst);
        }
    }
    if what == "read" {
        let Some((mut a, mut b)) = make_pair(ctx, &sock) else { return };
        let tracked = tap::on() && (sock == "unixstream" || sock == "unixdgram");
        let (tfa, tfb) = if tracked { (0u64, 1u64) } else { (NOF, NOF) };
        if tracked {
            tap::track(a.rawfd(), tfa, a.dgram());
            tap::track(b.rawfd(), tfb, b.dgram());
        }
        let seed = ctx.rand();
        let fl = Flag(dropped.clone());
        let got = Arc::new(AtomicU64::new(0));
        let got2 = got.clone();
        let victim = unsafe {
            may::coroutine::Builder::new().name("victim".into()).spawn(move || {
                let _fl = fl;
                let c = mayv::ctx();
                tap::actor(0);
                b.set_rto(if dur == 0 { None } else { Some(Duration::from_nanos(dur)) });
                let dgram = b.dgram();
                let mut off = 0u64;
                let mut buf = [0u8; 64];
                loop {
                    brk();
                    let t0 = c.now();
                    if tfb != NOF {
                        tap::call_rd(tfb, dgram, if dur == 0 { None } else { Some(armed(dur)) }, if dgram { 64 } else { 17 });
                    }
                    let res = b.recv(&mut buf[..if dgram { 64 } else { 17 }]);
                    if tfb != NOF {
                        match &res {
                            Ok(n) => tap::ret_ok(tfb, off, *n),
                            Err(e) if is_timeout(e) => tap::ret_timeout(tfb),
                            Err(_) => tap::ret_err(tfb),
                        }
                    }
                    match res {
                        Ok(0) if !dgram => {
                            c.fail("victim: end of stream although the peer is alive".into());
                            return;
                        }
                        Ok(n) => {
                            let base = if dgram { off * MSG as u64 } else { off };
                            if let Some(i) = (0..n).find(|&i| buf[i] != gen(seed, base + i as u64)) {
                                c.fail(format!("victim: data differs at offset {}", base + i as u64));
                                return;
                            }
                            off += if dgram { 1 } else { n as u64 };
                            got2.store(off, Ordering::SeqCst);
                        }
                        Err(e) if is_timeout(&e) => {
                            let el = c.now() - t0;
                            if dur == 0 || el < dur {
                                c.fail(format!("victim: timeout {dur} ns reported after {el} ns"));
                                return;
                            }
                        }
                        Err(e) => {
                            c.fail(format!("victim: receive failed: {e}"));
                            return;
                        }
                    }
                }
            }).unwrap()
        };
        // a little traffic for the victim before the cancel
        let nmsg = ctx.rand() % 3;
        for k in 0..nmsg {
            let msg: Vec<u8> = (0..MSG as u64).map(|i| gen(seed, k * MSG as u64 + i)).collect();
            brk();
            if tfa != NOF {
                tap::call_wr(tfa, a.dgram(), if a.dgram() { k } else { k * MSG as u64 }, MSG);
            }
            let res = a.send(&msg);
            if tfa != NOF {
                match &res {
                    Ok(n) => tap::ret_ok(tfa, if a.dgram() { k } else { k * MSG as u64 }, *n),
                    Err(_) => tap::ret_err(tfa),
                }
            }
            if res.ok() != Some(MSG) {
                ctx.fail("feeder: send failed".into());
            }
            if ctx.rand() % 2 == 0 {
                ctx.sleep_ns(200_000);
            }
        }
        cancel_delay(ctx);
        tap::cancel(0);
        unsafe { victim.coroutine().cancel() };
        check_cancel_join(ctx, victim.join(), "read");
        if !dropped.load(Ordering::SeqCst) {
            ctx.fail("read: the cancelled coroutine did not drop what it owned".into());
        }
        if !a.dgram() {
            // the victim's end was closed by the unwind: the peer reads end of stream
            a.set_rto(None);
            let mut buf = [0u8; 8];
            brk();
            if tfa != NOF {
                tap::call_rd(tfa, false, None, 8);
            }
            let res = a.recv(&mut buf);
            if tfa != NOF {
                match &res {
                    Ok(n) => tap::ret_ok(tfa, 0, *n),
                    Err(_) => tap::ret_err(tfa),
                }
            }
            match res {
                Ok(0) => {}
                // the victim was closed with unread data in its queue: the kernel reports that as a reset
                Err(e) if e.kind() == std::io::ErrorKind::ConnectionReset => {}
                other => ctx.fail(format!("read: after the cancel the peer expected end of stream, got {other:?}")),
            }
        }
    } else {
        // accept
        let fl = Flag(dropped.clone());
        let accepted = Arc::new(AtomicU64::new(0));
        let acc2 = accepted.clone();
        let pre = ctx.rand() % 3;
        if sock == "tcp" {
            let l = may::net::TcpListener::bind("127.0.0.1:0").expect("bind");
            let addr = l.local_addr().unwrap();
            let lfd = l.as_raw_fd();
            let victim = unsafe {
                may::coroutine::Builder::new().name("victim".into()).spawn(move || {
                    let _fl = fl;
                    loop {
                        brk();
                        match l.accept() {
                            Ok((s, _)) => {
                                acc2.fetch_add(1, Ordering::SeqCst);
                                drop(s);
                            }
                            Err(e) => {
                                mayv::ctx().fail(format!("victim: accept failed: {e}"));
                                return;
                            }
                        }
                    }
                }).unwrap()
            };
            let mut keep = vec![];
            for _ in 0..pre {
                brk();
                match may::net::TcpStream::connect(addr) {
                    Ok(s) => keep.push(s),
                    Err(e) => ctx.fail(format!("connect before the cancel failed: {e}")),
                }
            }
            cancel_delay(ctx);
            unsafe { victim.coroutine().cancel() };
            check_cancel_join(ctx, victim.join(), "accept");
            if !dropped.load(Ordering::SeqCst) {
                ctx.fail("accept: the cancelled coroutine did not drop what it owned".into());
            }
            // check runs scenario processes in parallel: the port of a closed listener can be given to a listener of
            // another process at once, so a successful connect alone proves nothing.  The listener is still open iff its
            // descriptor is still a listening socket (looked at before anything else in this process opens a descriptor)
            let still_listening = unsafe {
                extern "C" {
                    fn getsockopt(fd: i32, level: i32, name: i32, val: *mut i32, len: *mut u32) -> i32;
                }
                let (mut v, mut len) = (0i32, 4u32);
                getsockopt(lfd, 1, 30 /* SO_ACCEPTCONN */, &mut v, &mut len) == 0 && v == 1
            };
            if still_listening && std::net::TcpStream::connect(addr).is_ok() {
                ctx.fail("accept: the listener of the cancelled coroutine still accepts connections".into());
            }
        } else {
            let path = format!("/tmp/mayv_c18_{}_{}.sock", std::process::id(), ctx.rand() % 100000);
            let _ = std::fs::remove_file(&path);
            let l = may::os::unix::net::UnixListener::bind(&path).expect("bind");
            // MAYV_TAP=1: the listener is model descriptor 200, the connections made before the cancel are model
            // descriptors 20, 22, ... (made by this plain thread with the blocking connect of std: for the model a
            // connect that completes at once); the accepted sockets are dropped at once and not followed
            const LF: u64 = 200;
            if tap::on() {
                tap::track_listener(l.as_raw_fd(), LF, false);
            }
            let victim = unsafe {
                may::coroutine::Builder::new().name("victim".into()).spawn(move || {
                    let _fl = fl;
                    tap::actor(0);
                    loop {
                        brk();
                        tap::call_acc(LF);
                        match l.accept() {
                            Ok((s, _)) => {
                                tap::ret_ok(LF, 0, tap::last_accepted(LF).unwrap_or(0xffff) as usize);
                                acc2.fetch_add(1, Ordering::SeqCst);
                                drop(s);
                            }
                            Err(e) => {
                                mayv::ctx().fail(format!("victim: accept failed: {e}"));
                                return;
                            }
                        }
                    }
                }).unwrap()
            };
            let mut keep = vec![];
            for k in 0..pre {
                brk();
                let cf = 20 + 2 * k;
                if tap::on() {
                    tap::pend_connect(cf, LF);
                    tap::call_co(cf, LF, None);
                }
                match may::os::unix::net::UnixStream::connect(&path) {
                    Ok(s) => {
                        tap::ret_ok(cf, 0, 0);
                        keep.push(s)
                    }
                    Err(e) => {
                        tap::ret_err(cf);
                        ctx.fail(format!("connect before the cancel failed: {e}"))
                    }
                }
            }
            cancel_delay(ctx);
            tap::cancel(0);
            unsafe { victim.coroutine().cancel() };
            check_cancel_join(ctx, victim.join(), "accept");
            if !dropped.load(Ordering::SeqCst) {
                ctx.fail("accept: the cancelled coroutine did not drop what it owned".into());
            }
            if std::os::unix::net::UnixStream::connect(&path).is_ok() {
                ctx.fail("accept: the listener of the cancelled coroutine still accepts connections".into());
            }
            let _ = std::fs::remove_file(&path);
        }
    }
    for j in joins {
        j();
    }
}

// ------------------------------------------------------------------------------------------- shared

fn mode_shared(ctx: &Ctx) {
    let d = envn("MAYV_DUR", 10_000_000);
    let (a, b) = may::os::unix::net::UnixDatagram::pair().expect("pair");
    let b = Arc::new(b);
    b.set_read_timeout(Some(Duration::from_nanos(d))).unwrap();
    let b1 = b.clone();
    let first = unsafe {
        may::coroutine::Builder::new().name("A".into()).spawn(move || {
            let mut buf = [0u8; 8];
            let _ = b1.recv(&mut buf);
        }).unwrap()
    };
    ctx.sleep_ns(d / 10);
    unsafe { first.coroutine().cancel() };
    check_cancel_join(ctx, first.join(), "shared");
    ctx.sleep_ns(d / 10);
    let b2 = b.clone();
    let second = unsafe {
        may::coroutine::Builder::new().name("B".into()).spawn(move || {
            let c = mayv::ctx();
            let mut buf = [0u8; 8];
            let t0 = c.now();
            let r = b2.recv(&mut buf);
            let el = c.now() - t0;
            match r {
                Err(e) if is_timeout(&e) => {
                    if el < d {
                        c.fail(format!("shared: B's receive with timeout {d} ns reported TimedOut after only {el} ns: the timer armed for the cancelled operation of A fired into it"));
                    }
                }
                other => c.fail(format!("shared: unexpected result {other:?}")),
            }
        }).unwrap()
    };
    if second.join().is_err() {
        ctx.fail("shared: B panicked".into());
    }
    drop(a);
}

// -------------------------------------------------------------------------------------------- tdrop

/// (demonstration, not part of the regular check) a coroutine owns a stream, does one receive with a timeout that
/// nobody answers and returns, which closes the stream.  With a stall of the subscribing worker after `co.store`
/// (MAYV_SCHED_FILES=src/io/sys/unix/net/socket_read.rs MAYV_STALL=2:30000000) the timer resumes the coroutine on the
/// selector's worker, the coroutine ends and frees the socket, and the stalled kernel half of `subscribe` then goes
/// on to use `io_data` (`io_flag.load`, `Arc::clone` for `set_io`): see notes/c1718/scan_khalf.py for the trace check.
fn mode_tdrop(ctx: &Ctx) {
    let d = envn("MAYV_DUR", 1_000_000);
    let (a, mut b) = may::os::unix::net::UnixStream::pair().expect("pair");
    b.set_read_timeout(Some(Duration::from_nanos(d))).unwrap();
    let h = unsafe {
        may::coroutine::Builder::new().name("owner".into()).spawn(move || {
            let c = mayv::ctx();
            let mut buf = [0u8; 8];
            let t0 = c.now();
            let r = b.read(&mut buf);
            c.log("tdrop.read_done", 0, c.now() - t0, None);
            match r {
                Err(e) if is_timeout(&e) => {}
                other => c.fail(format!("tdrop: expected a timeout, got {other:?}")),
            }
            drop(b);
            c.log("tdrop.socket_dropped", 0, 0, None);
        }).unwrap()
    };
    let _ = h.join();
    // give a stalled kernel half the time to come back, and the allocator a reason to re-use the freed blocks
    ctx.sleep_ns(100_000_000);
    let junk: Vec<Box<[u64; 7]>> = (0..2000).map(|_| Box::new([0u64; 7])).collect();
    drop(junk);
    drop(a);
}

// ------------------------------------------------------------------------------------------ connect

extern "C" {
    fn listen(fd: i32, backlog: i32) -> i32;
}

fn mode_connect(ctx: &Ctx) {
    let d = if envn("MAYV_DUR", 0) != 0 { envn("MAYV_DUR", 0) } else { DURS[(ctx.rand() % 4) as usize] };
    let dead = envn("MAYV_DEAD", 2) != 0 && (envn("MAYV_DEAD", 2) == 1 || ctx.rand() % 2 == 0);
    let in_co = match envs("MAYV_RD", "mix").as_str() {
        "co" => true,
        "th" => false,
        _ => ctx.rand() % 2 == 0,
    };
    let l = std::net::TcpListener::bind("127.0.0.1:0").expect("bind");
    let addr = l.local_addr().unwrap();
    let mut fill = vec![];
    if dead {
        // a backlog of 0 holds one connection; further SYNs are dropped, the connect stays in progress
        unsafe { listen(l.as_raw_fd(), 0) };
        for _ in 0..2 {
            let s = std::net::TcpStream::connect_timeout(&addr, Duration::from_millis(200));
            if let Ok(s) = s {
                fill.push(s);
            }
        }
    }
    let seed = ctx.rand();
    let job: Job = Box::new(move || {
        let c = mayv::ctx();
        let t0 = c.now();
        brk();
        // MAYV_TAP=1 (coroutine caller): the connecting socket is model descriptor 0, the listener (a std listener
        // served by the main thread, not followed) is 200; the timer is armed with d as given (no rounding)
        let tapped = tap::on() && in_co;
        if tapped {
            tap::pend_connect(0, 200);
            tap::call_co(0, 200, Some(d));
        }
        let r = may::net::TcpStream::connect_timeout(&addr, Duration::from_nanos(d));
        let el = c.now() - t0;
        if tapped {
            match &r {
                Ok(_) => tap::ret_ok(0, 0, 0),
                Err(e) if is_timeout(e) => tap::ret_timeout(0),
                Err(_) => tap::ret_err(0),
            }
        }
        match r {
            Ok(s) if tapped => {
                // the reads that follow are not followed by the model (the peer is a std socket): the run ends here
                if dead {
                    c.fail("connect to a listener that never answers succeeded".into());
                }
                drop(s);
                println!("SUMMARY connect ok");
            }
            Err(e) if is_timeout(&e) => {
                // (a worker held up by an injected stall for longer than d makes the timeout legitimate)
                if !dead && !stalls_on() {
                    c.fail(format!("connect: TimedOut after {el} ns although the listener is alive"));
                }
                if el < d {
                    c.fail(format!("connect: timeout {d} ns reported after only {el} ns"));
                }
                println!("SUMMARY connect timed out after {el}");
            }
            Err(e) => c.fail(format!("connect failed: {e}")),
            Ok(mut s) => {
                if dead {
                    c.fail("connect to a listener that never answers succeeded".into());
                    return;
                }
                // reads without a timeout on the new stream, across the deadline of the connect timer
                let t_conn = c.now();
                let mut buf = [0u8; 8];
                let mut off = 0u64;
                for _ in 0..3 {
                    brk();
                    match s.read(&mut buf) {
                        Ok(n) if n > 0 => {
                            if let Some(i) = (0..n).find(|&i| buf[i] != gen(seed, off + i as u64)) {
                                c.fail(format!("connect: stream differs at offset {}", off + i as u64));
                            }
                            off += n as u64;
                        }
                        other => {
                            c.fail(format!("connect: read on the connected stream gave {other:?} at {} ns after the connect (timer of the connect fired into it?)", c.now() - t_conn));
                            return;
                        }
                    }
                }
                println!("SUMMARY connect ok, read {off}");
            }
        }
    });
    let j = start(ctx, "conn".into(), in_co, 0, job);
    if !dead {
        // serve: accept with the std listener (blocking is fine: the connection is already queued or comes at once)
        l.set_nonblocking(true).unwrap();
        let mut peer = None;
        for _ in 0..2000 {
            match l.accept() {
                Ok((s, _)) => {
                    peer = Some(s);
                    break;
                }
                Err(_) => ctx.yield_now(),
            }
        }
        match peer {
            None => ctx.fail("connect: the listener never saw the connection".into()),
            Some(mut p) => {
                p.set_nodelay(true).ok();
                let mut off = 0u64;
                for dt in [armed(d) / 2, armed(d) / 2, armed(d)] {
                    ctx.sleep_ns(dt);
                    let msg: Vec<u8> = (0..8u64).map(|i| gen(seed, off + i)).collect();
                    let _ = p.write_all(&msg);
                    off += 8;
                }
                j();
                return;
            }
        }
    }
    j();
    drop(fill);
}

extern "C" {
    fn close(fd: i32) -> i32;
    fn dup(fd: i32) -> i32;
}

fn main() {
    // descriptor numbers decide which selector serves a socket (fd % workers): do not let descriptors inherited from
    // the caller (e.g. the lock file of `flock`) shift them, the run must be a function of (env, seed) only
    for fd in 3..64 {
        unsafe { close(fd) };
    }
    // MAYV_FDSKEW=k: k extra descriptors first, which moves every socket to another selector (fd % workers)
    for _ in 0..envn("MAYV_FDSKEW", 0) {
        unsafe { dup(0) };
    }
    let mut cfg = Config::from_env();
    cfg.poll_io = true;
    // MAYV_SCHED_FILES=a.rs,b.rs: only hooks in these files are schedule (and stall) points
    if let Ok(l) = std::env::var("MAYV_SCHED_FILES") {
        cfg.sched_files = l.split(',').filter(|x| !x.is_empty()).map(|x| &*Box::leak(x.to_string().into_boxed_str())).collect();
    }
    let mode = envs("MAYV_MODE", "timed");
    run(cfg, move |ctx| {
        // Every worker leaves its first `select` before the scenario starts: that first call has no timeout, and under
        // the harness only `wakeup` ends a virtual wait - a kernel event for a descriptor of a worker that nobody has
        // woken yet would never be polled (a false HANG of the harness, not of may: the real epoll_wait returns).
        // Spawning from this (non-worker) thread wakes the workers round-robin.
        for _ in 0..envn("MAYV_WORKERS", 2) {
            let h = unsafe { may::coroutine::spawn(|| {}) };
            let _ = h.join();
        }
        tap::enable();
        run_mode(ctx, &mode)
    })
}

fn run_mode(ctx: &Ctx, mode: &str) {
    match mode {
        "timed" => mode_timed(ctx),
        "cancel" => mode_cancel(ctx),
        "shared" => mode_shared(ctx),
        "connect" => mode_connect(ctx),
        "tdrop" => mode_tdrop(ctx),
        o => panic!("MAYV_MODE={o}"),
    }
}
