//! C10 scenario (SyncFlag): 2-4 actors, threads and coroutines mixed, each running a seeded sequence of
//! wait / wait_timeout / is_fired / fire on ONE real may::sync::SyncFlag under the baton scheduler,
//! optional cancellation of waiting coroutines.
//!
//! Oracles on the implementation (independent of the Coq model):
//!  * no spurious fire: is_fired() / wait() / wait_timeout() answer true only after some fire() was called;
//!  * latch: once a fire() has returned, or an is_fired()/wait has answered true, every later is_fired() answers
//!    true and every wait / wait_timeout that starts afterwards returns true;
//!  * wait_timeout(d) never returns false before call time + d (virtual clock);
//!  * every untimed wait returns once fire() has been called (main fires when everybody is stuck; a waiter
//!    that stays parked after that is a lost wake-up; plus the harness' own deadlock / livelock detector).
//!
//! Trace records for the acceptor: flag.new, wait.call(flags: 1 = timed, 2 = coroutine; dur) wait.ret(0,res)
//! isf.call isf.ret(0,res) fire.call fire.ret.
use may::verif::Hooks;
use mayv::*;
use std::alloc::{GlobalAlloc, Layout, System};
use std::sync::atomic::{AtomicBool, AtomicI64, AtomicU64, Ordering::SeqCst};
use std::sync::Arc;
use std::time::Duration;

/// never reuse an address (see s_sem.rs)
struct Leak;
unsafe impl GlobalAlloc for Leak {
    unsafe fn alloc(&self, l: Layout) -> *mut u8 {
        System.alloc(l)
    }
    unsafe fn dealloc(&self, _p: *mut u8, _l: Layout) {}
}
#[global_allocator]
static GLOBAL: Leak = Leak;

/// a hooked access at a location of its own between two API calls: the harness takes three consecutive
/// hits of one site by a thread for a spin loop (and lets virtual time pass), which back-to-back
/// is_fired() / try_wait() calls would otherwise look like
static TICK: may::verif::atomic::AtomicUsize = may::verif::atomic::AtomicUsize::new(0);
fn tick() {
    TICK.load(std::sync::atomic::Ordering::Relaxed);
}

fn envs(k: &str, d: &str) -> String {
    std::env::var(k).unwrap_or_else(|_| d.into())
}
fn envn(k: &str, d: u64) -> u64 {
    std::env::var(k).ok().and_then(|s| s.parse().ok()).unwrap_or(d)
}

const DURS: [u64; 6] = [0, 1, 999_999, 1_000_000, 1_500_000, 10_000_000];
const GAPS: [u64; 12] = [0, 0, 0, 0, 0, 0, 0, 1, 999_999, 1_000_000, 2_000_000, 10_000_000];

struct Sh {
    flag: may::sync::SyncFlag,
    fire_called: AtomicBool, // some fire() has been entered
    latched: AtomicBool,     // a fire() has returned, or somebody was told "fired"
    in_wait: AtomicI64,      // actors inside an untimed wait()
    done: AtomicU64,
    progress: AtomicU64,
    deadline: AtomicU64,
    cancel_seen: AtomicBool,
}

impl Sh {
    fn fire(&self, c: &Ctx) {
        self.fire_called.store(true, SeqCst);
        c.log("fire.call", 0, 0, None);
        self.flag.fire();
        c.log("fire.ret", 0, 0, None);
        self.latched.store(true, SeqCst);
        self.progress.fetch_add(1, SeqCst);
    }
    fn told_true(&self, c: &Ctx, what: &str) {
        if !self.fire_called.load(SeqCst) {
            c.fail(format!("spurious fire: {what} answered true although fire() was never called"));
        }
        self.latched.store(true, SeqCst);
    }
    fn is_fired(&self, c: &Ctx) -> bool {
        let before = self.latched.load(SeqCst);
        c.log("isf.call", 0, 0, None);
        let r = self.flag.is_fired();
        c.log("isf.ret", 0, r as u64, None);
        if r {
            self.told_true(c, "is_fired");
        } else if before {
            c.fail("latch broken: is_fired() answered false after the flag was known to be fired".into());
        }
        self.progress.fetch_add(1, SeqCst);
        r
    }
}

/// virtual condition keys of the harness on which main waits for the actors (PCT runs: no polling)
const DONE_KEY: usize = 0x6000_0000;

struct Fin {
    sh: Arc<Sh>,
    in_untimed: bool,
    idx: usize,
}
impl Drop for Fin {
    fn drop(&mut self) {
        if self.in_untimed {
            self.sh.in_wait.fetch_sub(1, SeqCst);
        }
        if std::thread::panicking() {
            self.sh.cancel_seen.store(true, SeqCst);
        }
        self.sh.done.fetch_add(1, SeqCst);
        self.sh.progress.fetch_add(1, SeqCst);
        mayv::ctl().wake(DONE_KEY + self.idx);
    }
}

fn actor(sh: Arc<Sh>, idx: usize, nops: u64, mix: String, seed: u64) {
    let c = mayv::ctx();
    let is_co = may::coroutine::is_coroutine();
    let mut fin = Fin { sh: sh.clone(), in_untimed: false, idx };
    let mut r = seed | 1;
    let mut next = move || {
        r ^= r >> 12;
        r ^= r << 25;
        r ^= r >> 27;
        r.wrapping_mul(0x2545F4914F6CDD1D) >> 8
    };
    for _ in 0..nops {
        tick();
        let gap = GAPS[(next() % GAPS.len() as u64) as usize];
        if gap > 0 {
            c.sleep_ns(gap);
        }
        // weights: wait, wait_timeout, is_fired, fire, fire at the deadline of the latest wait_timeout
        let mut w: [u64; 5] = match mix.trim_end_matches("-nowait") {
            "timed" => [0, 7, 2, 1, 2],
            "wait" => [5, 2, 2, 2, 0],
            "late" => [3, 5, 3, 0, 0],
            _ => [2, 5, 3, 1, 1],
        };
        if mix.ends_with("-nowait") {
            w[1] += w[0];
            w[0] = 0;
        }
        let mut k = next() % w.iter().sum::<u64>();
        let mut op = 0;
        for (i, x) in w.iter().enumerate() {
            if k < *x {
                op = i;
                break;
            }
            k -= x;
        }
        match op {
            0 => {
                fin.in_untimed = true;
                sh.in_wait.fetch_add(1, SeqCst);
                c.log("wait.call", if is_co { 2 } else { 0 }, 0, None);
                sh.flag.wait();
                c.log("wait.ret", 0, 1, None);
                sh.in_wait.fetch_sub(1, SeqCst);
                fin.in_untimed = false;
                sh.told_true(&c, "wait");
                sh.progress.fetch_add(1, SeqCst);
            }
            1 => {
                let d = DURS[(next() % DURS.len() as u64) as usize];
                let before = sh.latched.load(SeqCst);
                let t0 = c.now();
                sh.deadline.store(t0 + if is_co { d.div_ceil(1_000_000) * 1_000_000 } else { d }, SeqCst);
                c.log("wait.call", 1 + if is_co { 2 } else { 0 }, d, None);
                let ok = sh.flag.wait_timeout(Duration::from_nanos(d));
                c.log("wait.ret", 0, ok as u64, None);
                let t1 = c.now();
                if ok {
                    sh.told_true(&c, "wait_timeout");
                } else {
                    if before {
                        c.fail(format!("latch broken: wait_timeout({d} ns) returned false although the flag was fired before the call"));
                    }
                    if t1 < t0 + d {
                        c.fail(format!("wait_timeout({d} ns) returned false after only {} ns ({})", t1 - t0, if is_co { "coroutine" } else { "thread" }));
                    }
                }
                sh.progress.fetch_add(1, SeqCst);
            }
            2 => {
                sh.is_fired(&c);
            }
            3 => sh.fire(&c),
            _ => {
                let (dl, now) = (sh.deadline.load(SeqCst), c.now());
                if dl > now {
                    c.sleep_ns(dl - now);
                }
                sh.fire(&c);
            }
        }
    }
    drop(fin);
}

fn main() {
    let mut cfg = Config::from_env();
    if envs("MAYV_SCHED", "narrow") == "narrow" {
        cfg.sched_files = vec!["src/sync/sync_flag.rs", "src/sync/blocking.rs", "src/park.rs", "src/cancel.rs", "src/bin/s_flag.rs"];
    }
    let stalls = std::env::var("MAYV_STALL").is_ok() || std::env::var("MAYV_STALL_AT").is_ok();
    let nact = envn("MAYV_ACTORS", 3) as usize;
    let nops = envn("MAYV_OPS", 3);
    let ctx_sel = envs("MAYV_CTX", "mix");
    let mix = envs("MAYV_MIX", "mix");
    let ncancel = envn("MAYV_CANCEL", 0) as usize;
    // PCT keeps running the highest priority thread: a main that wakes up every millisecond to look at the
    // progress would starve a low priority actor for ever.  PCT runs therefore contain no untimed wait
    // (every call returns by itself) and main simply blocks until each actor is done.
    let pct = envs("MAYV_STRATEGY", "random").starts_with("pct");
    let mix = if pct { format!("{mix}-nowait") } else { mix };
    run(cfg, move |ctx| {
        let sh = Arc::new(Sh {
            flag: may::sync::SyncFlag::new(),
            fire_called: AtomicBool::new(false),
            latched: AtomicBool::new(false),
            in_wait: AtomicI64::new(0),
            done: AtomicU64::new(0),
            progress: AtomicU64::new(0),
            deadline: AtomicU64::new(0),
            cancel_seen: AtomicBool::new(false),
        });
        ctx.log("flag.new", 0, 0, None);
        let mut threads = vec![];
        let mut cos = vec![];
        for a in 0..nact {
            let in_co = match ctx_sel.as_str() {
                "co" => true,
                "th" => false,
                _ => ctx.rand() % 2 == 0,
            };
            let (sh2, mix2, seed) = (sh.clone(), mix.clone(), ctx.rand());
            if in_co {
                let h = unsafe { may::coroutine::Builder::new().name(format!("a{a}")).spawn(move || actor(sh2, a, nops, mix2, seed)).unwrap() };
                cos.push(h);
            } else {
                threads.push(ctx.spawn(&format!("a{a}"), move || actor(sh2, a, nops, mix2, seed)));
            }
        }
        let mut cancellers = vec![];
        for k in 0..ncancel.min(cos.len()) {
            let co = cos[k].coroutine().clone();
            let dt = GAPS[(ctx.rand() % GAPS.len() as u64) as usize] + [0u64, 0, 500_000, 1_000_000][(ctx.rand() % 4) as usize];
            let spins = ctx.rand() % 40;
            cancellers.push(ctx.spawn(&format!("x{k}"), move || {
                let c = mayv::ctx();
                if dt > 0 {
                    c.sleep_ns(dt);
                }
                for _ in 0..spins {
                    c.point();
                }
                unsafe { co.cancel() };
            }));
        }
        // main watches progress: when everybody still running sits in an untimed wait it fires;
        // a waiter that stays parked after a fire() has returned is a lost wake-up
        if pct {
            for a in 0..nact {
                ctx.ctl.block(DONE_KEY + a, None);
            }
        }
        let quiet_limit = if stalls { 150 } else { 40 };
        let (mut last, mut quiet, mut rescues) = (u64::MAX, 0u32, 0u64);
        while sh.done.load(SeqCst) < nact as u64 {
            ctx.sleep_ns(1_000_000);
            let p = sh.progress.load(SeqCst);
            if p != last {
                last = p;
                quiet = 0;
                continue;
            }
            quiet += 1;
            if quiet < quiet_limit {
                continue;
            }
            quiet = 0;
            if sh.in_wait.load(SeqCst) == 0 {
                ctx.fail(format!("hang: no call returned for {quiet_limit} ms of virtual time although nobody is in an untimed wait"));
                break;
            }
            if sh.latched.load(SeqCst) {
                ctx.fail("hang: a waiter stays parked although fire() has returned".into());
                break;
            }
            rescues += 1;
            sh.fire(ctx);
        }
        let failed = sh.done.load(SeqCst) < nact as u64;
        if !failed && sh.latched.load(SeqCst) {
            sh.is_fired(ctx);
        }
        ctx.record(false);
        if failed {
            return;
        }
        for h in threads {
            ctx.join(h);
        }
        for h in cancellers {
            ctx.join(h);
        }
        for h in cos {
            let _ = h.join();
        }
        println!("fired={} cancelled={} rescues={rescues} vtime={}", sh.latched.load(SeqCst), sh.cancel_seen.load(SeqCst), ctx.now());
    })
}
