//! C02, thread half: the REAL `ThreadPark` (src/sync/blocking.rs: parking_lot Mutex + Condvar).
//!
//! Under the baton scheduler `ThreadPark::park_timeout / unpark` are virtual (the harness blocks and wakes the
//! thread itself), so the scenarios of s_park never execute the real body.  This binary installs NO hooks
//! (every cfg(may_verif) shim is a pass-through then) and drives a `may::sync::Blocker` of plain threads in
//! real time.  Only lower bounds on time and generous upper bounds are checked, so that machine load cannot
//! make it fail; a lost wake-up shows as a wall-clock timeout of the run (reported as HANG by ./check).
//!
//! Oracles (the Blocker token of coq/Base/BlockerSpec.v, as refined by coq/Rt/ParkThread.v):
//!  * unpark before park: the park returns Ok without waiting
//!  * the token is a flag: two unparks allow one Ok
//!  * the token is cleared whatever the verdict; Timeout only at or after the deadline, and only without a token
//!  * unpark concurrently with / after the park wakes it (from one or several threads)
use may::coroutine::ParkError;
use may::sync::Blocker;
use std::sync::atomic::{AtomicUsize, Ordering};
use std::sync::Arc;
use std::time::{Duration, Instant};

fn main() {
    let rounds: usize = std::env::var("MAYV_ROUNDS").ok().and_then(|s| s.parse().ok()).unwrap_or(3);
    let seed: u64 = std::env::var("MAYV_SEED").ok().and_then(|s| s.parse().ok()).unwrap_or(1);
    let mut fails: Vec<String> = vec![];
    let ms = Duration::from_millis;
    for r in 0..rounds {
        let b = Arc::new(Blocker::new(false));
        // 1. unpark before park
        b.unpark();
        let t = Instant::now();
        match b.park(Some(ms(3000))) {
            Ok(()) if t.elapsed() < ms(1500) => {}
            x => fails.push(format!("round {r}: park after unpark: {x:?} after {:?}", t.elapsed())),
        }
        // 2. that park consumed the token: the next one times out, not early
        let t = Instant::now();
        let d = ms(15 + (seed % 5) * 3);
        match b.park(Some(d)) {
            Err(ParkError::Timeout) if t.elapsed() >= d => {}
            x => fails.push(format!("round {r}: park({d:?}) without token: {x:?} after {:?}", t.elapsed())),
        }
        // 3. two unparks are one token
        b.unpark();
        b.unpark();
        let t = Instant::now();
        match b.park(Some(ms(3000))) {
            Ok(()) if t.elapsed() < ms(1500) => {}
            x => fails.push(format!("round {r}: park after two unparks: {x:?} after {:?}", t.elapsed())),
        }
        let t = Instant::now();
        match b.park(Some(ms(10))) {
            Err(ParkError::Timeout) if t.elapsed() >= ms(10) => {}
            x => fails.push(format!("round {r}: second park after two unparks: {x:?} after {:?}", t.elapsed())),
        }
        // 4. unpark from other threads, racing with the park (no timeout: a lost wake-up hangs the run)
        let n = 1 + (seed as usize + r) % 3;
        let issued = Arc::new(AtomicUsize::new(0));
        let hs: Vec<_> = (0..n)
            .map(|i| {
                let (b2, is2) = (b.clone(), issued.clone());
                std::thread::spawn(move || {
                    if (i + r) % 2 == 1 {
                        std::thread::sleep(Duration::from_micros(200 * (1 + i as u64)));
                    }
                    is2.fetch_add(1, Ordering::SeqCst);
                    b2.unpark();
                })
            })
            .collect();
        match b.park(None) {
            Ok(()) if issued.load(Ordering::SeqCst) >= 1 => {}
            x => fails.push(format!("round {r}: park(None) with {n} unparkers: {x:?}, issued {}", issued.load(Ordering::SeqCst))),
        }
        for h in hs {
            h.join().unwrap();
        }
        // whatever is left of those unparks is at most one token: one more park may return Ok, the one after it not
        let _ = b.park(Some(ms(5)));
        let t = Instant::now();
        match b.park(Some(ms(10))) {
            Err(ParkError::Timeout) if t.elapsed() >= ms(10) => {}
            x => fails.push(format!("round {r}: park after the token was drained: {x:?} after {:?}", t.elapsed())),
        }
        // 5. a timed park that is unparked in time returns Ok, before its deadline would be fine too
        let b2 = b.clone();
        let h = std::thread::spawn(move || {
            std::thread::sleep(ms(5));
            b2.unpark();
        });
        match b.park(Some(ms(5000))) {
            Ok(()) => {}
            x => fails.push(format!("round {r}: timed park with an unparker: {x:?}")),
        }
        h.join().unwrap();
        // 6. timeouts the clock cannot represent (Duration::MAX, as Semphore / Condvar / SyncFlag::wait_timeout forward
        //    them unchanged): the park waits for its unpark like an untimed one, it neither panics nor times out
        for d in [Duration::MAX, Duration::from_secs(u64::MAX / 4), Duration::from_secs(1 << 40)] {
            let b2 = b.clone();
            let h = std::thread::spawn(move || {
                std::thread::sleep(ms(8));
                b2.unpark();
            });
            let t = Instant::now();
            let b3 = b.clone();
            match std::panic::catch_unwind(std::panic::AssertUnwindSafe(move || b3.park(Some(d)))) {
                Ok(Ok(())) if t.elapsed() < ms(3000) => {}
                Ok(x) => fails.push(format!("round {r}: park({d:?}) with an unparker: {x:?} after {:?}", t.elapsed())),
                Err(_) => fails.push(format!("round {r}: park({d:?}) PANICKED instead of waiting for its unpark")),
            }
            h.join().unwrap();
            // the late unpark of a panicked park may have left a token behind: drain it
            let _ = b.park(Some(ms(1)));
        }
    }
    for f in &fails {
        println!("ORACLE {f}");
    }
    println!("END code={} vtime=0 steps=0 switches=0 events=0 threads=0", if fails.is_empty() { 0 } else { 2 });
    std::process::exit(if fails.is_empty() { 0 } else { 2 });
}
