//! C09 scenario: a coroutine is cancelled at a random point while it is in (or about to enter) one of
//! the cancellable blocking calls; other parties use the same primitive concurrently.
//! Oracles: the target's join returns Err (Cancel) and never hangs; every value owned by its stack is
//! dropped exactly once; locks it held are released and NOT poisoned; a wake-up / hand-off / permit /
//! notification that raced with the cancel is passed on (the other waiters all finish); a coroutine that
//! was not cancelled never observes a cancellation.
use mayv::*;
use std::sync::atomic::{AtomicUsize, Ordering};
use std::sync::Arc;
use std::time::Duration;

fn envs(k: &str, d: &str) -> String {
    std::env::var(k).unwrap_or_else(|_| d.into())
}
fn envn(k: &str, d: u64) -> u64 {
    std::env::var(k).ok().and_then(|s| s.parse().ok()).unwrap_or(d)
}

static DROPS: AtomicUsize = AtomicUsize::new(0);
static MADE: AtomicUsize = AtomicUsize::new(0);
struct Occ(Arc<AtomicUsize>);
impl Occ {
    fn enter(a: &Arc<AtomicUsize>, what: &str) -> Occ {
        if a.fetch_add(1, Ordering::SeqCst) != 0 {
            mayv::ctx().fail(format!("two parties inside the {what}"));
        }
        Occ(a.clone())
    }
}
impl Drop for Occ {
    fn drop(&mut self) {
        self.0.fetch_sub(1, Ordering::SeqCst);
    }
}
struct Owned(#[allow(dead_code)] u32);
impl Owned {
    fn new(v: u32) -> Self {
        MADE.fetch_add(1, Ordering::SeqCst);
        Owned(v)
    }
}
impl Drop for Owned {
    fn drop(&mut self) {
        DROPS.fetch_add(1, Ordering::SeqCst);
    }
}

fn main() {
    let cfg = Config::from_env();
    let prim = envs("MAYV_PRIM", "mix");
    let others = envn("MAYV_OTHERS", 2) as usize;
    run(cfg, move |ctx| {
        let prims = ["mutex", "sem", "cond", "rw", "chan", "mpmc", "park", "sleep", "join", "flag"];
        let prim: &'static str = if prim == "mix" { prims[(ctx.rand() % prims.len() as u64) as usize] } else { prims.iter().copied().find(|p| *p == prim).expect("prim") };
        let mx = Arc::new(may::sync::Mutex::new(0u32));
        let rw = Arc::new(may::sync::RwLock::new(0u32));
        let sem = Arc::new(may::sync::Semphore::new(0));
        let cv = Arc::new(may::sync::Condvar::new());
        let flag = Arc::new(may::sync::SyncFlag::new());
        let (tx, rx) = may::sync::mpsc::channel::<u32>();
        let (mtx, mrx) = may::sync::mpmc::channel::<u32>();
        let occupancy = Arc::new(AtomicUsize::new(0));
        let finished = Arc::new(AtomicUsize::new(0));

        // the other parties: each does `rounds` operations on the same primitive and must always finish
        let mut joins: Vec<Box<dyn FnOnce()>> = vec![];
        let rounds = envn("MAYV_ROUNDS", 2);
        for o in 0..others {
            let (mx, rw, sem, cv, occ, fin, mrx2) = (mx.clone(), rw.clone(), sem.clone(), cv.clone(), occupancy.clone(), finished.clone(), mrx.clone());
            let body = move || {
                let c = mayv::ctx();
                for _ in 0..rounds {
                    match prim {
                        "mutex" | "cond" | "join" | "park" | "sleep" | "flag" => {
                            let mut g = match mx.lock() {
                                Ok(g) => g,
                                Err(_) => {
                                    c.fail("mutex poisoned by a cancellation".into());
                                    return;
                                }
                            };
                            let o = Occ::enter(&occ, "mutex");
                            *g += 1;
                            may::coroutine::yield_now();
                            drop(o);
                            if prim == "cond" {
                                cv.notify_one();
                            }
                            drop(g);
                        }
                        "rw" => {
                            let g = match rw.write() {
                                Ok(g) => g,
                                Err(_) => {
                                    c.fail("rwlock poisoned by a cancellation".into());
                                    return;
                                }
                            };
                            let o = Occ::enter(&occ, "rwlock");
                            may::coroutine::yield_now();
                            drop(o);
                            drop(g);
                        }
                        "sem" => {
                            sem.wait();
                            sem.post();
                        }
                        "mpmc" => {
                            let _ = mrx2.recv();
                        }
                        _ => {}
                    }
                }
                fin.fetch_add(1, Ordering::SeqCst);
            };
            if o % 2 == 0 {
                let h = unsafe { may::coroutine::Builder::new().name(format!("o{o}")).spawn(body).unwrap() };
                joins.push(Box::new(move || {
                    if h.join().is_err() {
                        mayv::ctx().fail("a coroutine that was not cancelled observed a cancellation (or panicked)".into());
                    }
                }));
            } else {
                let h = ctx.spawn(&format!("o{o}"), body);
                joins.push(Box::new(move || mayv::ctx().join(h)));
            }
        }

        // the target
        let (mx2, rw2, sem2, cv2, flag2, occ2) = (mx.clone(), rw.clone(), sem.clone(), cv.clone(), flag.clone(), occupancy.clone());
        let reached = Arc::new(AtomicUsize::new(0));
        let reached2 = reached.clone();
        let target = unsafe {
            may::coroutine::Builder::new().name("target".into()).spawn(move || {
                let _a = Owned::new(1);
                let _b = vec![Owned::new(2), Owned::new(3)];
                reached2.store(1, Ordering::SeqCst);
                loop {
                    let _c = Owned::new(4);
                    match prim {
                        "mutex" => {
                            let g = mx2.lock().unwrap();
                            let o = Occ::enter(&occ2, "mutex");
                            may::coroutine::yield_now();
                            drop(o);
                            drop(g);
                        }
                        "rw" => {
                            let g = rw2.read().unwrap();
                            may::coroutine::yield_now();
                            drop(g);
                            let g = rw2.write().unwrap();
                            let o = Occ::enter(&occ2, "rwlock");
                            drop(o);
                            drop(g);
                        }
                        "sem" => {
                            sem2.wait();
                            sem2.post();
                        }
                        "cond" => {
                            let g = mx2.lock().unwrap();
                            let g = cv2.wait(g).unwrap();
                            drop(g);
                        }
                        "chan" => {
                            let _ = rx.recv();
                        }
                        "mpmc" => {
                            let _ = mrx.recv();
                        }
                        "park" => may::coroutine::park(),
                        "sleep" => may::coroutine::sleep(Duration::from_millis(3)),
                        "flag" => {
                            flag2.wait_timeout(Duration::from_millis(2));
                        }
                        "join" => {
                            let h = may::coroutine::spawn(|| may::coroutine::sleep(Duration::from_millis(2)));
                            let _ = h.join();
                        }
                        _ => unreachable!(),
                    }
                    // a call that does not block is not a cancellation point: yield so that the loop always has one
                    may::coroutine::yield_now();
                }
            })
        }
        .unwrap();
        // feed the primitive so that everybody can make progress, cancel the target at a random point
        let feeder_sem = sem.clone();
        let feeder = ctx.spawn("feeder", move || {
            let c = mayv::ctx();
            for i in 0..6u32 {
                c.sleep_ns([0u64, 300_000, 1_000_000][(c.rand() % 3) as usize]);
                match prim {
                    "sem" => feeder_sem.post(),
                    "chan" => {
                        let _ = tx.send(i);
                    }
                    "mpmc" => {
                        let _ = mtx.send(i);
                    }
                    _ => {}
                }
            }
            // keep the senders alive until the end of the closure
            c.sleep_ns(1_000_000);
        });
        let when = ctx.rand() % 4;
        while reached.load(Ordering::SeqCst) == 0 {
            ctx.yield_now();
        }
        ctx.sleep_ns(when * 700_000);
        for _ in 0..(ctx.rand() % 40) {
            ctx.point();
        }
        unsafe { target.coroutine().cancel() };
        match target.join() {
            Ok(()) => ctx.fail("cancelled coroutine finished normally".into()),
            Err(e) => {
                // a Cancel error is not a string payload; an ordinary panic (e.g. a failed unwrap) is
                if let Some(m) = e.downcast_ref::<&str>().map(|s| s.to_string()).or_else(|| e.downcast_ref::<String>().cloned()) {
                    ctx.fail(format!("cancelled coroutine ended with a panic: {m}"));
                }
            }
        }
        // others must all finish: whatever raced with the cancel was passed on
        if prim == "sem" {
            for _ in 0..(others as u64 * rounds + 2) {
                sem.post();
            }
        }
        ctx.join(feeder);
        for j in joins {
            j();
        }
        if finished.load(Ordering::SeqCst) != others {
            ctx.fail(format!("{} of {others} other parties finished", finished.load(Ordering::SeqCst)));
        }
        if mx.is_poisoned() || rw.is_poisoned() {
            ctx.fail("a lock was poisoned by the cancellation".into());
        }
        if mx.try_lock().is_err() {
            ctx.fail("mutex still held after the cancelled coroutine was joined".into());
        }
        if rw.try_write().is_err() {
            ctx.fail("rwlock still held after the cancelled coroutine was joined".into());
        }
        let (m, d) = (MADE.load(Ordering::SeqCst), DROPS.load(Ordering::SeqCst));
        if m != d {
            ctx.fail(format!("{m} stack values were created by the cancelled coroutine but {d} dropped"));
        }
    })
}
