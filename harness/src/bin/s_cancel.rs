//! C09 scenario: a coroutine is cancelled at a random point while it is in (or about to enter) one of
//! the cancellable blocking calls; other parties use the same primitive concurrently.
//!
//! MAYV_PRIM = park | sleep | mutex | sem | cond | rw | chan (mpsc) | mpmc | join | flag | select |
//!             read | accept | connect | mix (one of them, seeded)
//!             readpark (not part of mix): the target does ONE blocking socket read and then blocks in a NON-io primitive
//!             (MAYV_RP = park (default) | chan: coroutine::park / mpsc recv nobody serves); it is cancelled long after that
//!             (40 ms of virtual time, longer than the long directed stall).  The cancel must not be swallowed by whatever the
//!             finished read left behind in the coroutine's Cancel (a stale io registration: the subscriber of the read is
//!             held up between `io_data.co.store(co)` and `cancel.set_io(io_data)` by a site-directed stall, MAYV_STALL_AT,
//!             while the OTHER worker's epoll delivers the data and resumes the target).  MAYV_FDMOD=r: the target's socket
//!             has fd % workers == r (its events are delivered by worker r) and the target is started on worker r + 1.
//! MAYV_TIMED=1: the target uses the timed flavour of the call where one exists (park_timeout, wait_timeout,
//!             recv_timeout ...): the cancel then also races with the timer of the call.
//! MAYV_OTHERS = number of other parties (default 2: a coroutine and a thread), MAYV_ROUNDS their rounds.
//! MAYV_BY=0: no bystander / heir coroutines.
//! MAYV_AIM=1: the canceller fires when the k-th (seeded) post / send / unlock / notify of the other parties is about to happen
//!             plus a few hook points, instead of at a seeded virtual time: the cancel races with the hand-off.
//! MAYV_SELARMS=timed (default): the arms of the select variant are sleep / SyncFlag::wait_timeout / Semphore::wait_timeout;
//!             =recv: two arms block in mpsc::Receiver::recv (REPLAY of a finding: the cancelled select never ends, see
//!             props/C09.json; not part of the checked variants).
//!             =poll: the same receive as a loop of try_recv + sleep in the scenario; with MAYV_O2TAG=1 the arm reports the
//!             evidence of the finding (text `O2e: ...`, known finding F33e) and ends the run.
//! MAYV_SELOTHERS=mutex: in the select variant the other parties hold a Mutex guard across a yield (REPLAY of finding
//!             F33b: spurious poisoning while the cancelled select owner is suspended inside its unwinding).
//!
//! The canceller (main) waits a seeded virtual time and a seeded number of hook points, then calls cancel().
//!
//! Oracles (all on the implementation):
//!  * stop: the target's join returns Err whose payload is not a message (the Cancel error) and never hangs (HANG
//!    detector of the harness); the target never completes another round after its cancellation point: it does
//!    not finish normally;
//!  * clean up: every value owned by the target's stack (locals, a vector, a value created per round, values
//!    captured by select arms) is dropped exactly once; the locks it used are released (try_lock / try_write
//!    succeed at the end) and NOT poisoned; the socket / listener it owned is closed (the peer reads end of
//!    stream / a later connect is refused);
//!  * forward: a wake-up / hand-off / permit / notification / message that raced with the cancel is passed on:
//!    the other parties all finish their rounds; mutual exclusion holds throughout (occupancy counters); a
//!    message sent to the cancelled receiver is not lost: sent = received by the target + still receivable;
//!  * no spurious cancel: a coroutine that was not cancelled never observes a cancellation - the other parties,
//!    a BYSTANDER coroutine that runs park_timeout / sleep / wait_timeout / select! all along, and an HEIR
//!    coroutine spawned after the target has died (it gets the pooled stack of the target: finding F30) must
//!    all return normally from every call.
use mayv::*;
use std::io::{Read, Write};
use std::os::unix::io::AsRawFd;
use std::sync::atomic::{AtomicBool, AtomicUsize, Ordering};
use std::sync::Arc;
use std::time::Duration;

fn envs(k: &str, d: &str) -> String {
    std::env::var(k).unwrap_or_else(|_| d.into())
}
fn envn(k: &str, d: u64) -> u64 {
    std::env::var(k).ok().and_then(|s| s.parse().ok()).unwrap_or(d)
}

extern "C" {
    fn listen(fd: i32, backlog: i32) -> i32;
}

static DROPS: AtomicUsize = AtomicUsize::new(0);
static MADE: AtomicUsize = AtomicUsize::new(0);
static TWICE: AtomicUsize = AtomicUsize::new(0);
/// messages the target received (chan / mpmc / select variants)
static TGOT: AtomicUsize = AtomicUsize::new(0);
/// rounds the target completed
static TROUNDS: AtomicUsize = AtomicUsize::new(0);

struct Occ(Arc<AtomicUsize>);
impl Occ {
    fn enter(a: &Arc<AtomicUsize>, what: &str) -> Occ {
        if a.fetch_add(1, Ordering::SeqCst) != 0 {
            mayv::ctx().fail(format!("two parties inside the {what}"));
        }
        Occ(a.clone())
    }
}
impl Drop for Occ {
    fn drop(&mut self) {
        self.0.fetch_sub(1, Ordering::SeqCst);
    }
}
/// a value owned by the target's stack: counts creation and drop, detects a second drop
struct Owned(#[allow(dead_code)] u32, AtomicBool);
impl Owned {
    fn new(v: u32) -> Self {
        MADE.fetch_add(1, Ordering::SeqCst);
        Owned(v, AtomicBool::new(false))
    }
}
impl Drop for Owned {
    fn drop(&mut self) {
        if self.1.swap(true, Ordering::SeqCst) {
            TWICE.fetch_add(1, Ordering::SeqCst);
        }
        DROPS.fetch_add(1, Ordering::SeqCst);
    }
}

/// number of events the target may be waiting for that are about to happen (a post / send / unlock / notify is the next
/// thing its issuer does): MAYV_AIM=1 lets the canceller fire right then, so that the cancel races with the hand-off
static EVENTS: AtomicUsize = AtomicUsize::new(0);
/// set by main right before it calls cancel() on the target
static CANCEL_REQ: AtomicBool = AtomicBool::new(false);

/// receive of a select arm written as a loop: try_recv, then a cancellation point (sleep).  A select coroutine that the
/// cqueue has cancelled dies at that point - unless the cancel panic is suppressed: CancelImpl::check_cancel raises it only
/// `if !thread::panicking()`, and std::thread::panicking() is a counter of the OS thread, which stays 1 while the cancelled
/// owner of the select is suspended inside its unwinding (Cqueue::finish waits for the arms) on this worker (O2).
fn poll_recv(rx: &may::sync::mpsc::Receiver<u32>) -> Option<u32> {
    let mut n = 0u64;
    loop {
        match rx.try_recv() {
            Ok(v) => return Some(v),
            Err(std::sync::mpsc::TryRecvError::Disconnected) => return None,
            Err(std::sync::mpsc::TryRecvError::Empty) => {}
        }
        may::coroutine::sleep(Duration::from_micros(100));
        n += 1;
        if n == 300 {
            let c = mayv::ctx();
            if std::env::var("MAYV_O2TAG").is_ok() && CANCEL_REQ.load(Ordering::SeqCst) && std::thread::panicking() {
                // evidence of O2: the target was cancelled, this arm is not unwinding (it executes this line), its thread
                // reports panicking, and its cancellation point has returned 300 times in a row
                c.fail("O2e: a select arm of the cancelled coroutine is never cancelled: its cancellation point returned 300 times without raising the cancel panic while std::thread::panicking() is true on its thread (the owner is suspended inside its unwinding there); the owner's join never returns".into());
            } else {
                c.fail(format!("a select arm polled 300 times without a message, a timeout of the select or its own cancellation (cancel requested: {}, thread::panicking(): {})", CANCEL_REQ.load(Ordering::SeqCst), std::thread::panicking()));
            }
            mayv::finish(mayv::ctl(), 0);
        }
    }
}

const PRIMS: [&str; 14] = ["mutex", "sem", "cond", "rw", "chan", "mpmc", "park", "sleep", "join", "flag", "select", "read", "accept", "connect"];

/// the calls of a coroutine nobody cancels: every one of them must return normally
fn calm_calls(who: &'static str, rounds: u64, flag: &may::sync::SyncFlag) {
    let c = mayv::ctx();
    for i in 0..rounds {
        match i % 4 {
            0 => may::coroutine::sleep(Duration::from_micros(300)),
            1 => may::coroutine::park_timeout(Duration::from_micros(200)),
            2 => {
                flag.wait_timeout(Duration::from_micros(250));
            }
            _ => {
                // no arm that waits in mpsc::Receiver::recv: the loser of a select is cancelled by the cqueue, and a
                // cancelled recv never ends on a worker that has the dying target suspended inside its unwinding (F33e)
                let t = may::select!(
                    _ = may::coroutine::sleep(Duration::from_micros(150)) => {},
                    _ = flag.wait_timeout(Duration::from_micros(400)) => {}
                );
                if t > 1 {
                    c.fail(format!("{who}: select! returned token {t}"));
                }
            }
        }
    }
}

fn main() {
    let cfg = Config::from_env();
    let prim = envs("MAYV_PRIM", "mix");
    let others = envn("MAYV_OTHERS", 2) as usize;
    let timed = envn("MAYV_TIMED", 0) == 1;
    let with_by = envn("MAYV_BY", 1) == 1;
    let selarms = envs("MAYV_SELARMS", "timed");
    let sel_mutex = envs("MAYV_SELOTHERS", "read") == "mutex";
    let aim = envn("MAYV_AIM", 0) == 1;
    run(cfg, move |ctx| {
        let prim: &'static str = if prim == "mix" { PRIMS[(ctx.rand() % PRIMS.len() as u64) as usize] } else { PRIMS.iter().copied().chain(["readpark"]).find(|p| *p == prim).expect("MAYV_PRIM") };
        let mx = Arc::new(may::sync::Mutex::new(0u32));
        let rw = Arc::new(may::sync::RwLock::new(0u32));
        let sem = Arc::new(may::sync::Semphore::new(0));
        let cv = Arc::new(may::sync::Condvar::new());
        let flag = Arc::new(may::sync::SyncFlag::new());
        let (tx, rx) = may::sync::mpsc::channel::<u32>();
        let (tx2, rx2) = may::sync::mpsc::channel::<u32>();
        let (mtx, mrx) = may::sync::mpmc::channel::<u32>();
        let occupancy = Arc::new(AtomicUsize::new(0));
        let finished = Arc::new(AtomicUsize::new(0));
        let ogot = Arc::new(AtomicUsize::new(0));
        let dt = Duration::from_millis(3);

        // sockets of the I/O variants
        let (mut sa, mut sb) = may::os::unix::net::UnixStream::pair().expect("pair");
        // readpark: choose the selector (worker) that delivers the events of the target's socket
        let fdmod = std::env::var("MAYV_FDMOD").ok().and_then(|s| s.parse::<usize>().ok());
        let workers = envn("MAYV_WORKERS", 2) as usize;
        let mut spare = vec![];
        if let Some(r) = fdmod {
            for _ in 0..8 {
                if sb.as_raw_fd() as usize % workers == r % workers {
                    break;
                }
                if sa.as_raw_fd() as usize % workers == r % workers {
                    std::mem::swap(&mut sa, &mut sb);
                    break;
                }
                let (a, b) = may::os::unix::net::UnixStream::pair().expect("pair");
                spare.push((std::mem::replace(&mut sa, a), std::mem::replace(&mut sb, b)));
            }
        }
        let rp_chan = envs("MAYV_RP", "park") == "chan";
        // MAYV_RP0=sleep: the first blocking call of readpark is a 1 ms sleep instead of the socket read (a subscriber of
        // the sleep that is held up registers its cancel data after the target has been resumed by the timer)
        let rp0_sleep = envs("MAYV_RP0", "read") == "sleep";
        // readpark: 0 = not yet, 1 = the target is about to read, 2 = the read has returned
        let rstage = Arc::new(AtomicUsize::new(0));
        let (rstage_t, rstage_f) = (rstage.clone(), rstage.clone());
        let lst = may::net::TcpListener::bind("127.0.0.1:0").expect("bind");
        let laddr = lst.local_addr().unwrap();
        let lfd = { use std::os::fd::AsRawFd; lst.as_raw_fd() };
        // a listener that never answers: backlog 0 holds one connection, further SYNs are dropped
        let deadl = std::net::TcpListener::bind("127.0.0.1:0").expect("bind");
        let daddr = deadl.local_addr().unwrap();
        let mut fill = vec![];
        if prim == "connect" {
            unsafe { listen(deadl.as_raw_fd(), 0) };
            for _ in 0..2 {
                if let Ok(s) = std::net::TcpStream::connect_timeout(&daddr, Duration::from_millis(25)) {
                    fill.push(s);
                }
            }
        }

        // the other parties: each does `rounds` operations on the same primitive and must always finish
        let mut joins: Vec<Box<dyn FnOnce()>> = vec![];
        let rounds = envn("MAYV_ROUNDS", 2);
        for o in 0..others {
            let (mx, rw, sem, cv, occ, fin, mrx2, og) = (mx.clone(), rw.clone(), sem.clone(), cv.clone(), occupancy.clone(), finished.clone(), mrx.clone(), ogot.clone());
            let body = move || {
                let c = mayv::ctx();
                for _ in 0..rounds {
                    match prim {
                        // the select variant suspends the target in the middle of its unwinding (Cqueue::finish waits for the
                        // arms): a Mutex guard that another coroutine drops meanwhile on that worker is poisoned (finding F33b of
                        // C13: thread::panicking() is per thread).  The others use read guards (no poison flag) unless the
                        // replay switch MAYV_SELOTHERS=mutex is set.
                        "select" if !sel_mutex => {
                            let g = match rw.read() {
                                Ok(g) => g,
                                Err(_) => {
                                    c.fail("rwlock poisoned by a cancellation".into());
                                    return;
                                }
                            };
                            may::coroutine::yield_now();
                            drop(g);
                        }
                        "rw" => {
                            let g = match rw.write() {
                                Ok(g) => g,
                                Err(_) => {
                                    c.fail("rwlock poisoned by a cancellation".into());
                                    return;
                                }
                            };
                            let o = Occ::enter(&occ, "rwlock");
                            may::coroutine::yield_now();
                            drop(o);
                            EVENTS.fetch_add(1, Ordering::SeqCst);
                            drop(g);
                        }
                        "sem" => {
                            sem.wait();
                            EVENTS.fetch_add(1, Ordering::SeqCst);
                            sem.post();
                        }
                        "mpmc" => {
                            if mrx2.recv().is_ok() {
                                og.fetch_add(1, Ordering::SeqCst);
                            }
                        }
                        _ => {
                            let mut g = match mx.lock() {
                                Ok(g) => g,
                                Err(_) => {
                                    c.fail("mutex poisoned by a cancellation".into());
                                    return;
                                }
                            };
                            let o = Occ::enter(&occ, "mutex");
                            *g += 1;
                            may::coroutine::yield_now();
                            drop(o);
                            EVENTS.fetch_add(1, Ordering::SeqCst);
                            if prim == "cond" {
                                cv.notify_one();
                            }
                            drop(g);
                        }
                    }
                }
                fin.fetch_add(1, Ordering::SeqCst);
            };
            if o % 2 == 0 {
                let h = unsafe { may::coroutine::Builder::new().name(format!("o{o}")).spawn(body).unwrap() };
                joins.push(Box::new(move || {
                    if h.join().is_err() {
                        mayv::ctx().fail("a coroutine that was not cancelled observed a cancellation (or panicked)".into());
                    }
                }));
            } else {
                let h = ctx.spawn(&format!("o{o}"), body);
                joins.push(Box::new(move || mayv::ctx().join(h)));
            }
        }
        // the bystander: blocking calls of its own, all along
        if with_by {
            let f2 = flag.clone();
            let h = unsafe { may::coroutine::Builder::new().name("bystander".into()).spawn(move || calm_calls("bystander", 8, &f2)).unwrap() };
            joins.push(Box::new(move || {
                if h.join().is_err() {
                    mayv::ctx().fail("the bystander coroutine, which nobody cancelled, was unwound (observed a cancellation)".into());
                }
            }));
        }

        // the target
        let (mx2, rw2, sem2, cv2, flag2, occ2) = (mx.clone(), rw.clone(), sem.clone(), cv.clone(), flag.clone(), occupancy.clone());
        let reached = Arc::new(AtomicUsize::new(0));
        let reached2 = reached.clone();
        let closed = Arc::new(AtomicBool::new(false));
        let closed2 = closed.clone();
        struct Closed(Arc<AtomicBool>);
        impl Drop for Closed {
            fn drop(&mut self) {
                self.0.store(true, Ordering::SeqCst);
            }
        }
        let mrx_t = mrx.clone();
        // MAYV_HOLD2=1: the target holds a lock of its own (nobody else touches it) across the call it is cancelled in:
        // the guard is dropped by the cancellation unwind and must not poison, whichever code raised the cancel panic
        let hold2 = envn("MAYV_HOLD2", 0) != 0;
        let held = Arc::new(may::sync::Mutex::new(0u32));
        let heldw = Arc::new(may::sync::RwLock::new(0u32));
        let (held2, heldw2) = (held.clone(), heldw.clone());
        let mut tb = may::coroutine::Builder::new().name("target".into());
        if let (Some(r), "readpark") = (fdmod, prim) {
            tb = tb.id((r + 1) % workers);
        }
        let target = unsafe {
            tb.spawn(move || {
                let _a = Owned::new(1);
                let _b = vec![Owned::new(2), Owned::new(3)];
                // what the I/O variants own: dropped (closed) by the unwind
                let _cl = Closed(closed2);
                let mut sb = sb;
                let lst = lst;
                reached2.store(1, Ordering::SeqCst);
                loop {
                    let _c = Owned::new(4);
                    let _h1 = if hold2 { Some(held2.lock().unwrap()) } else { None };
                    let _h2 = if hold2 { Some(heldw2.write().unwrap()) } else { None };
                    match prim {
                        "mutex" => {
                            let g = mx2.lock().unwrap();
                            let o = Occ::enter(&occ2, "mutex");
                            may::coroutine::yield_now();
                            drop(o);
                            drop(g);
                        }
                        "rw" => {
                            let g = rw2.read().unwrap();
                            may::coroutine::yield_now();
                            drop(g);
                            let g = rw2.write().unwrap();
                            let o = Occ::enter(&occ2, "rwlock");
                            drop(o);
                            drop(g);
                        }
                        "sem" => {
                            let ok = if timed { sem2.wait_timeout(dt) } else { sem2.wait(); true };
                            if ok {
                                sem2.post();
                            }
                        }
                        "cond" => {
                            let g = mx2.lock().unwrap();
                            let g = if timed { cv2.wait_timeout(g, dt).unwrap().0 } else { cv2.wait(g).unwrap() };
                            drop(g);
                        }
                        "chan" => {
                            let r = if timed { rx.recv_timeout(dt).ok() } else { rx.recv().ok() };
                            if r.is_some() {
                                TGOT.fetch_add(1, Ordering::SeqCst);
                            }
                        }
                        "mpmc" => {
                            let r = if timed { mrx_t.recv_timeout(dt).ok() } else { mrx_t.recv().ok() };
                            if r.is_some() {
                                TGOT.fetch_add(1, Ordering::SeqCst);
                            }
                        }
                        "park" => {
                            if timed {
                                may::coroutine::park_timeout(dt)
                            } else {
                                may::coroutine::park()
                            }
                        }
                        "sleep" => may::coroutine::sleep(dt),
                        "flag" => {
                            flag2.wait_timeout(Duration::from_millis(2));
                        }
                        "join" => {
                            let h = may::coroutine::spawn(|| may::coroutine::sleep(Duration::from_millis(2)));
                            let _ = h.join();
                        }
                        "select" => {
                            // the arms own values too: whatever happens to the select they are dropped once
                            let (v1, v2) = (Owned::new(5), Owned::new(6));
                            if selarms == "recv" {
                                // arms blocked in mpsc::Receiver::recv: finding F33e, seen as a HANG (replay only)
                                may::select!(
                                    r = rx.recv() => { let _v = &v1; if r.is_ok() { TGOT.fetch_add(1, Ordering::SeqCst); } },
                                    r = rx2.recv() => { let _v = &v2; if r.is_ok() { TGOT.fetch_add(1, Ordering::SeqCst); } },
                                    _ = may::coroutine::sleep(Duration::from_millis(4)) => {}
                                );
                            } else if selarms == "poll" {
                                // the same receive written as a loop in the scenario (try_recv + a cancellation point), so that
                                // the arm itself can see why it is never cancelled: finding F33e with its evidence
                                may::select!(
                                    r = poll_recv(&rx) => { let _v = &v1; if r.is_some() { TGOT.fetch_add(1, Ordering::SeqCst); } },
                                    r = poll_recv(&rx2) => { let _v = &v2; if r.is_some() { TGOT.fetch_add(1, Ordering::SeqCst); } },
                                    _ = may::coroutine::sleep(Duration::from_millis(4)) => {}
                                );
                            } else {
                                may::select!(
                                    _ = may::coroutine::sleep(Duration::from_millis(2)) => { let _v = &v1; },
                                    _ = flag2.wait_timeout(Duration::from_millis(3)) => { let _v = &v2; },
                                    _ = sem2.wait_timeout(Duration::from_millis(4)) => {}
                                );
                            }
                        }
                        "read" => {
                            let mut buf = [0u8; 16];
                            if timed {
                                sb.set_read_timeout(Some(dt)).unwrap();
                            }
                            match sb.read(&mut buf) {
                                Ok(n) => {
                                    TGOT.fetch_add(n, Ordering::SeqCst);
                                }
                                Err(e) if matches!(e.kind(), std::io::ErrorKind::TimedOut | std::io::ErrorKind::WouldBlock) && timed => {}
                                Err(e) => mayv::ctx().fail(format!("target: read failed: {e}")),
                            }
                        }
                        "readpark" => {
                            if rstage_t.load(Ordering::SeqCst) == 0 && rp0_sleep {
                                rstage_t.store(1, Ordering::SeqCst);
                                may::coroutine::sleep(std::time::Duration::from_millis(1));
                                rstage_t.store(2, Ordering::SeqCst);
                            } else if rstage_t.load(Ordering::SeqCst) == 0 {
                                let mut buf = [0u8; 16];
                                rstage_t.store(1, Ordering::SeqCst);
                                match sb.read(&mut buf) {
                                    Ok(n) => {
                                        TGOT.fetch_add(n, Ordering::SeqCst);
                                    }
                                    Err(e) => mayv::ctx().fail(format!("target: read failed: {e}")),
                                }
                                rstage_t.store(2, Ordering::SeqCst);
                            } else if rp_chan {
                                // nobody sends, the Sender lives in the feeder's keep-alive list: only the cancel ends this
                                if rx.recv().is_ok() {
                                    TGOT.fetch_add(1, Ordering::SeqCst);
                                }
                            } else {
                                // nobody unparks the target: only the cancel ends this
                                may::coroutine::park();
                            }
                        }
                        "accept" => match lst.accept() {
                            Ok((s, _)) => {
                                TGOT.fetch_add(1, Ordering::SeqCst);
                                drop(s);
                            }
                            Err(e) => mayv::ctx().fail(format!("target: accept failed: {e}")),
                        },
                        "connect" => {
                            let r = if timed { may::net::TcpStream::connect_timeout(&daddr, dt) } else { may::net::TcpStream::connect(daddr) };
                            match r {
                                Ok(_) => mayv::ctx().fail("target: connect to a listener that never answers succeeded".into()),
                                Err(e) if matches!(e.kind(), std::io::ErrorKind::TimedOut | std::io::ErrorKind::WouldBlock) && timed => {}
                                Err(e) => mayv::ctx().fail(format!("target: connect failed: {e}")),
                            }
                        }
                        _ => unreachable!(),
                    }
                    TROUNDS.fetch_add(1, Ordering::SeqCst);
                    // a call that does not block is not a cancellation point: yield so that the loop always has one
                    may::coroutine::yield_now();
                }
            })
        }
        .unwrap();
        // feed the primitive so that everybody can make progress, cancel the target at a random point
        let feeder_sem = sem.clone();
        let sent = Arc::new(AtomicUsize::new(0));
        let sent2 = sent.clone();
        let keep: Arc<std::sync::Mutex<Vec<Box<dyn std::any::Any + Send>>>> = Arc::new(std::sync::Mutex::new(vec![]));
        let keep2 = keep.clone();
        let mtx_f = mtx.clone();
        let feeder = ctx.spawn("feeder", move || {
            let c = mayv::ctx();
            let mut sa = sa;
            let mut conns = vec![];
            let mut tx_keep = None;
            if prim == "readpark" {
                // one message, sent 1 ms after the target has gone into its read (it is subscribed, or its subscriber is
                // held up, by then: virtual time only passes when nobody can run)
                let mut n = 0u64;
                while rstage_f.load(Ordering::SeqCst) == 0 && n < 1_000_000 {
                    if n < 2000 {
                        c.yield_now();
                    } else {
                        c.sleep_ns(20_000);
                    }
                    n += 1;
                }
                c.sleep_ns(1_000_000);
                if sa.write(&[7u8; 4]).is_ok() {
                    sent2.fetch_add(4, Ordering::SeqCst);
                }
                tx_keep = Some(tx.clone());
            }
            for i in 0..6u32 {
                c.sleep_ns([0u64, 300_000, 1_000_000][(c.rand() % 3) as usize]);
                EVENTS.fetch_add(1, Ordering::SeqCst);
                match prim {
                    "sem" => feeder_sem.post(),
                    "chan" => {
                        if tx.send(i).is_ok() {
                            sent2.fetch_add(1, Ordering::SeqCst);
                        }
                    }
                    "select" => {
                        let r = if i % 2 == 0 { tx.send(i) } else { tx2.send(i) };
                        if r.is_ok() {
                            sent2.fetch_add(1, Ordering::SeqCst);
                        }
                    }
                    "mpmc" => {
                        if mtx_f.send(i).is_ok() {
                            sent2.fetch_add(1, Ordering::SeqCst);
                        }
                    }
                    "read" => {
                        if sa.write(&[i as u8; 4]).is_ok() {
                            sent2.fetch_add(4, Ordering::SeqCst);
                        }
                    }
                    "accept" => {
                        if i < 3 {
                            if let Ok(s) = std::net::TcpStream::connect(laddr) {
                                sent2.fetch_add(1, Ordering::SeqCst);
                                conns.push(s);
                            }
                        }
                    }
                    _ => {}
                }
            }
            // keep the senders alive until the end of the closure
            c.sleep_ns(1_000_000);
            let mut k = keep2.lock().unwrap();
            k.push(Box::new(sa));
            k.push(Box::new(conns));
            k.push(Box::new(tx_keep));
        });
        let when = ctx.rand() % 4;
        while reached.load(Ordering::SeqCst) == 0 {
            ctx.yield_now();
        }
        if prim == "readpark" {
            // cancel the target long after its read has returned and it has blocked again
            let mut n = 0u64;
            while rstage.load(Ordering::SeqCst) < 2 && n < 1_000_000 {
                if n < 2000 {
                    ctx.yield_now();
                } else {
                    ctx.sleep_ns(20_000);
                }
                n += 1;
            }
            if rstage.load(Ordering::SeqCst) < 2 {
                ctx.fail("readpark: the target's read never returned although its 4 bytes were sent".into());
            }
            ctx.sleep_ns(40_000_000 + when * 700_000);
            for _ in 0..(ctx.rand() % 40) {
                ctx.point();
            }
        } else if aim {
            // fire right when the k-th event the target may be waiting for is about to happen
            let k = 1 + (ctx.rand() % 5) as usize;
            let mut guard = 0;
            while EVENTS.load(Ordering::SeqCst) < k && guard < 4000 {
                ctx.yield_now();
                guard += 1;
            }
            for _ in 0..(ctx.rand() % 14) {
                ctx.point();
            }
        } else {
            ctx.sleep_ns(when * 700_000);
            for _ in 0..(ctx.rand() % 40) {
                ctx.point();
            }
        }
        let rounds_at_cancel = TROUNDS.load(Ordering::SeqCst);
        CANCEL_REQ.store(true, Ordering::SeqCst);
        unsafe { target.coroutine().cancel() };
        match target.join() {
            Ok(()) => ctx.fail("cancelled coroutine finished normally".into()),
            Err(e) => {
                // a Cancel error is not a string payload; an ordinary panic (e.g. a failed unwrap) is
                if let Some(m) = e.downcast_ref::<&str>().map(|s| s.to_string()).or_else(|| e.downcast_ref::<String>().cloned()) {
                    ctx.fail(format!("cancelled coroutine ended with a panic: {m}"));
                }
            }
        }
        // stop: at most the round that was in flight when the cancel was called completes (its blocking call had
        // already returned); the next cancellable call ends the coroutine
        let r1 = TROUNDS.load(Ordering::SeqCst);
        if r1 > rounds_at_cancel + 1 {
            ctx.fail(format!("the target completed {} more rounds after cancel() was called", r1 - rounds_at_cancel));
        }
        if !closed.load(Ordering::SeqCst) {
            ctx.fail("the cancelled coroutine did not drop what its closure owned".into());
        }
        // the heir: a coroutine spawned now gets the stack of the dead target; nobody cancels it
        if with_by {
            let f3 = flag.clone();
            let h = unsafe { may::coroutine::Builder::new().name("heir".into()).spawn(move || calm_calls("heir", 4, &f3)).unwrap() };
            joins.push(Box::new(move || {
                if h.join().is_err() {
                    mayv::ctx().fail("a coroutine spawned after the cancelled one had died observed a cancellation".into());
                }
            }));
        }
        // others must all finish: whatever raced with the cancel was passed on
        let extra_posts = others as u64 * rounds + 2;
        if prim == "sem" {
            for _ in 0..extra_posts {
                sem.post();
            }
        }
        ctx.join(feeder);
        if prim == "mpmc" {
            // the messages the target did not take are for the others: top up so that every round finds one
            let need = others * rounds as usize;
            for i in 0..need {
                let _ = mtx.send(100 + i as u32);
            }
        }
        for j in joins {
            j();
        }
        if finished.load(Ordering::SeqCst) != others {
            ctx.fail(format!("{} of {others} other parties finished", finished.load(Ordering::SeqCst)));
        }
        if mx.is_poisoned() || rw.is_poisoned() {
            ctx.fail("a lock was poisoned by the cancellation".into());
        }
        if held.is_poisoned() || heldw.is_poisoned() {
            ctx.fail("a lock the cancelled coroutine held across the call it was cancelled in was poisoned by the cancellation".into());
        }
        if hold2
            && (matches!(held.try_lock(), Err(std::sync::TryLockError::WouldBlock))
                || matches!(heldw.try_write(), Err(std::sync::TryLockError::WouldBlock)))
        {
            ctx.fail("a lock the cancelled coroutine held across the call it was cancelled in is still held after the join".into());
        }
        if mx.try_lock().is_err() {
            ctx.fail("mutex still held after the cancelled coroutine was joined".into());
        }
        if rw.try_write().is_err() {
            ctx.fail("rwlock still held after the cancelled coroutine was joined".into());
        }
        // permits are conserved across the cancellation: every wait of the others and of the target is followed by its
        // own post, a permit handed to the target while it was being cancelled is posted again by the Canceled branch, so
        // at the end the value is exactly what the feeder and main have posted
        if prim == "sem" {
            let v = sem.get_value();
            let exp = 6 + extra_posts as usize;
            if v != exp {
                ctx.fail(format!("semaphore value is {v} at the end, {exp} permits were posted and every successful wait posted again: a permit handed to the cancelled waiter was lost or duplicated"));
            }
        }
        let (m, d) = (MADE.load(Ordering::SeqCst), DROPS.load(Ordering::SeqCst));
        if m != d {
            ctx.fail(format!("{m} stack values were created by the cancelled coroutine but {d} dropped"));
        }
        if TWICE.load(Ordering::SeqCst) != 0 {
            ctx.fail("a stack value of the cancelled coroutine was dropped twice".into());
        }
        // what was sent to the cancelled receiver was received by it or is still there (mpsc: the Receiver died
        // with the target, nothing can be read any more, so only the upper bound is checked)
        let (s, g) = (sent.load(Ordering::SeqCst), TGOT.load(Ordering::SeqCst));
        match prim {
            "chan" | "select" | "read" | "readpark" | "accept" => {
                if g > s {
                    ctx.fail(format!("the target received {g} but only {s} were sent"));
                }
            }
            "mpmc" => {
                let og = ogot.load(Ordering::SeqCst);
                let mut left = 0;
                while mrx.try_recv().is_ok() {
                    left += 1;
                }
                let total = s + others * rounds as usize;
                if g + og + left != total {
                    ctx.fail(format!("mpmc: {total} messages sent, {g} received by the target + {og} by the others + {left} left"));
                }
            }
            _ => {}
        }
        // the port alone proves nothing: another process (a scenario run in parallel) may have been given the same
        // ephemeral port after the listener was closed, so the descriptor itself must still be open as well
        extern "C" {
            fn fcntl(fd: i32, cmd: i32, ...) -> i32;
        }
        if prim == "accept" && unsafe { fcntl(lfd, 1) } != -1 && std::net::TcpStream::connect(laddr).is_ok() {
            ctx.fail("accept: the listener of the cancelled coroutine still accepts connections".into());
        }
        drop(fill);
        drop(spare);
        drop(deadl);
        drop(keep);
    })
}
