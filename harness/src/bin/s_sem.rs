//! C10 scenario (Semphore): 2-4 actors, threads and coroutines mixed, each running a seeded sequence of
//! wait / wait_timeout / try_wait / post / get_value on ONE real may::sync::Semphore under the baton
//! scheduler, timeouts racing posts at equal virtual times, optional cancellation of waiting coroutines.
//!
//! Oracles on the implementation (independent of the Coq model):
//!  * successes <= init + posts at every moment (own counters: a post is counted before it is called,
//!    a success after the call returned);
//!  * get_value() <= init + posts - successes at every call, and == once everything has returned;
//!  * wait_timeout(d) never returns false before call time + d (virtual clock);
//!  * nobody stays parked while the value is positive / every call returns once permits suffice
//!    (the main actor watches progress; plus the harness' own deadlock / livelock detector).
//!
//! Trace records for the acceptor (kind, obj, val): wait.call(flags: 1 = timed, 2 = coroutine; dur ns)
//! wait.ret(0, result) try.call try.ret(0, result) post.call post.ret getv.call getv.ret(0, value),
//! sem.new(0, init) first.
use may::verif::Hooks;
use mayv::*;
use std::alloc::{GlobalAlloc, Layout, System};
use std::sync::atomic::{AtomicBool, AtomicI64, AtomicU64, Ordering::SeqCst};
use std::sync::Arc;
use std::time::Duration;

/// never reuse an address: the virtual ThreadPark token of the harness is keyed by address, and the
/// trace normaliser numbers objects by address (a recycled SyncBlocker would alias an old one)
struct Leak;
unsafe impl GlobalAlloc for Leak {
    unsafe fn alloc(&self, l: Layout) -> *mut u8 {
        System.alloc(l)
    }
    unsafe fn dealloc(&self, _p: *mut u8, _l: Layout) {}
}
#[global_allocator]
static GLOBAL: Leak = Leak;

/// a hooked access at a location of its own between two API calls: the harness takes three consecutive
/// hits of one site by a thread for a spin loop (and lets virtual time pass), which back-to-back
/// is_fired() / try_wait() calls would otherwise look like
static TICK: may::verif::atomic::AtomicUsize = may::verif::atomic::AtomicUsize::new(0);
fn tick() {
    TICK.load(std::sync::atomic::Ordering::Relaxed);
}

fn envs(k: &str, d: &str) -> String {
    std::env::var(k).unwrap_or_else(|_| d.into())
}
fn envn(k: &str, d: u64) -> u64 {
    std::env::var(k).ok().and_then(|s| s.parse().ok()).unwrap_or(d)
}

const DURS: [u64; 6] = [0, 1, 999_999, 1_000_000, 1_500_000, 10_000_000];
const GAPS: [u64; 12] = [0, 0, 0, 0, 0, 0, 0, 1, 999_999, 1_000_000, 2_000_000, 10_000_000];

struct Sh {
    sem: may::sync::Semphore,
    init: i64,
    posts: AtomicI64,    // posts started
    succ: AtomicI64,     // successful waits that have returned
    in_wait: AtomicI64,  // actors inside an untimed wait()
    deadline: AtomicU64, // virtual deadline of the most recent wait_timeout
    done: AtomicU64,     // actors that finished (or were cancelled)
    progress: AtomicU64, // completed calls
    cancel_seen: AtomicBool,
}

impl Sh {
    fn post(&self, c: &Ctx) {
        self.posts.fetch_add(1, SeqCst);
        c.log("post.call", 0, 0, None);
        self.sem.post();
        c.log("post.ret", 0, 0, None);
        self.progress.fetch_add(1, SeqCst);
    }
    fn success(&self, c: &Ctx, what: &str) {
        let s = self.succ.fetch_add(1, SeqCst) + 1;
        let p = self.posts.load(SeqCst);
        if s > self.init + p {
            c.fail(format!("permit duplicated: {s} successful waits with init {} and {p} posts ({what})", self.init));
        }
    }
    fn get_value(&self, c: &Ctx) -> i64 {
        let s0 = self.succ.load(SeqCst);
        c.log("getv.call", 0, 0, None);
        let v = self.sem.get_value() as i64;
        c.log("getv.ret", 0, v as u64, None);
        let p1 = self.posts.load(SeqCst);
        if v > self.init + p1 - s0 {
            c.fail(format!("get_value {v} exceeds init {} + posts {p1} - successes {s0}", self.init));
        }
        self.progress.fetch_add(1, SeqCst);
        v
    }
}

/// marks the actor finished also when a cancel panic unwinds it
/// virtual condition keys of the harness on which main waits for the actors (PCT runs: no polling)
const DONE_KEY: usize = 0x6000_0000;

struct Fin {
    sh: Arc<Sh>,
    in_untimed: bool,
    idx: usize,
}
impl Drop for Fin {
    fn drop(&mut self) {
        if self.in_untimed {
            self.sh.in_wait.fetch_sub(1, SeqCst);
        }
        if std::thread::panicking() {
            self.sh.cancel_seen.store(true, SeqCst);
        }
        self.sh.done.fetch_add(1, SeqCst);
        self.sh.progress.fetch_add(1, SeqCst);
        mayv::ctl().wake(DONE_KEY + self.idx);
    }
}

fn actor(sh: Arc<Sh>, idx: usize, nops: u64, mix: String, seed: u64) {
    let c = mayv::ctx();
    let is_co = may::coroutine::is_coroutine();
    let mut fin = Fin { sh: sh.clone(), in_untimed: false, idx };
    let mut r = seed | 1;
    let mut next = move || {
        r ^= r >> 12;
        r ^= r << 25;
        r ^= r >> 27;
        r.wrapping_mul(0x2545F4914F6CDD1D) >> 8
    };
    for _ in 0..nops {
        tick();
        let gap = GAPS[(next() % GAPS.len() as u64) as usize];
        if gap > 0 {
            c.sleep_ns(gap);
        }
        // weights: wait, wait_timeout, try_wait, post, get_value, post at the deadline of the latest wait_timeout
        let mut w: [u64; 6] = match mix.trim_end_matches("-nowait") {
            "timed" => [0, 6, 1, 3, 1, 3],
            "wait" => [5, 1, 1, 6, 1, 0],
            "try" => [1, 2, 5, 5, 2, 0],
            _ => [2, 4, 2, 4, 1, 1],
        };
        if mix.ends_with("-nowait") {
            w[1] += w[0];
            w[0] = 0;
        }
        let mut k = next() % w.iter().sum::<u64>();
        let mut op = 0;
        for (i, x) in w.iter().enumerate() {
            if k < *x {
                op = i;
                break;
            }
            k -= x;
        }
        match op {
            0 => {
                fin.in_untimed = true;
                sh.in_wait.fetch_add(1, SeqCst);
                c.log("wait.call", if is_co { 2 } else { 0 }, 0, None);
                sh.sem.wait();
                c.log("wait.ret", 0, 1, None);
                sh.in_wait.fetch_sub(1, SeqCst);
                fin.in_untimed = false;
                sh.success(&c, "wait");
                sh.progress.fetch_add(1, SeqCst);
            }
            1 => {
                let d = DURS[(next() % DURS.len() as u64) as usize];
                let t0 = c.now();
                // a coroutine's timeout is kept in whole milliseconds, rounded up
                sh.deadline.store(t0 + if is_co { d.div_ceil(1_000_000) * 1_000_000 } else { d }, SeqCst);
                c.log("wait.call", 1 + if is_co { 2 } else { 0 }, d, None);
                let ok = sh.sem.wait_timeout(Duration::from_nanos(d));
                c.log("wait.ret", 0, ok as u64, None);
                let t1 = c.now();
                if ok {
                    sh.success(&c, "wait_timeout");
                } else if t1 < t0 + d {
                    c.fail(format!("wait_timeout({d} ns) returned false after only {} ns ({})", t1 - t0, if is_co { "coroutine" } else { "thread" }));
                }
                sh.progress.fetch_add(1, SeqCst);
            }
            2 => {
                c.log("try.call", 0, 0, None);
                let ok = sh.sem.try_wait();
                c.log("try.ret", 0, ok as u64, None);
                if ok {
                    sh.success(&c, "try_wait");
                }
                sh.progress.fetch_add(1, SeqCst);
            }
            3 => sh.post(&c),
            4 => {
                sh.get_value(&c);
            }
            _ => {
                let (dl, now) = (sh.deadline.load(SeqCst), c.now());
                if dl > now {
                    c.sleep_ns(dl - now);
                }
                sh.post(&c);
            }
        }
    }
    drop(fin);
}

fn main() {
    let mut cfg = Config::from_env();
    if envs("MAYV_SCHED", "narrow") == "narrow" {
        cfg.sched_files = vec!["src/sync/semphore.rs", "src/sync/blocking.rs", "src/park.rs", "src/cancel.rs", "src/bin/s_sem.rs"];
    }
    let stalls = std::env::var("MAYV_STALL").is_ok() || std::env::var("MAYV_STALL_AT").is_ok();
    let init = envn("MAYV_INIT", 0) as i64;
    let nact = envn("MAYV_ACTORS", 3) as usize;
    let nops = envn("MAYV_OPS", 3);
    let ctx_sel = envs("MAYV_CTX", "mix");
    let mix = envs("MAYV_MIX", "mix");
    let ncancel = envn("MAYV_CANCEL", 0) as usize;
    // PCT keeps running the highest priority thread: a main that wakes up every millisecond to look at the
    // progress would starve a low priority actor for ever.  PCT runs therefore contain no untimed wait
    // (every call returns by itself) and main simply blocks until each actor is done.
    let pct = envs("MAYV_STRATEGY", "random").starts_with("pct");
    let mix = if pct { format!("{mix}-nowait") } else { mix };
    run(cfg, move |ctx| {
        let sh = Arc::new(Sh {
            sem: may::sync::Semphore::new(init as usize),
            init,
            posts: AtomicI64::new(0),
            succ: AtomicI64::new(0),
            in_wait: AtomicI64::new(0),
            deadline: AtomicU64::new(0),
            done: AtomicU64::new(0),
            progress: AtomicU64::new(0),
            cancel_seen: AtomicBool::new(false),
        });
        ctx.log("sem.new", 0, init as u64, None);
        let mut threads = vec![];
        let mut cos = vec![];
        for a in 0..nact {
            let in_co = match ctx_sel.as_str() {
                "co" => true,
                "th" => false,
                _ => ctx.rand() % 2 == 0,
            };
            let (sh2, mix2, seed) = (sh.clone(), mix.clone(), ctx.rand());
            if in_co {
                let h = unsafe { may::coroutine::Builder::new().name(format!("a{a}")).spawn(move || actor(sh2, a, nops, mix2, seed)).unwrap() };
                cos.push(h);
            } else {
                threads.push(ctx.spawn(&format!("a{a}"), move || actor(sh2, a, nops, mix2, seed)));
            }
        }
        // cancellers: each cancels one coroutine actor at a virtual time taken from the gap set
        let mut cancellers = vec![];
        for k in 0..ncancel.min(cos.len()) {
            let co = cos[k].coroutine().clone();
            let dt = GAPS[(ctx.rand() % GAPS.len() as u64) as usize] + [0u64, 0, 500_000, 1_000_000][(ctx.rand() % 4) as usize];
            let spins = ctx.rand() % 40;
            cancellers.push(ctx.spawn(&format!("x{k}"), move || {
                let c = mayv::ctx();
                if dt > 0 {
                    c.sleep_ns(dt);
                }
                // land somewhere inside what the others are doing right now
                for _ in 0..spins {
                    c.point();
                }
                unsafe { co.cancel() };
            }));
        }
        // main watches progress; when everybody still running sits in an untimed wait it supplies permits,
        // and a waiter that stays parked although the value is positive is a lost wake-up
        if pct {
            for a in 0..nact {
                ctx.ctl.block(DONE_KEY + a, None);
            }
        }
        let quiet_limit = if stalls { 150 } else { 40 };
        let (mut last, mut quiet, mut rescues) = (u64::MAX, 0u32, 0u64);
        while sh.done.load(SeqCst) < nact as u64 {
            ctx.sleep_ns(1_000_000);
            let p = sh.progress.load(SeqCst);
            if p != last {
                last = p;
                quiet = 0;
                continue;
            }
            quiet += 1;
            if quiet < quiet_limit {
                continue;
            }
            quiet = 0;
            if sh.in_wait.load(SeqCst) == 0 {
                ctx.fail(format!("hang: no call returned for {quiet_limit} ms of virtual time although nobody is in an untimed wait"));
                break;
            }
            let v = sh.get_value(ctx);
            if v > 0 {
                ctx.fail(format!("hang: a waiter stays parked although the semaphore value is {v}"));
                break;
            }
            rescues += 1;
            if rescues > nact as u64 * nops + 2 {
                ctx.fail("hang: waiters stay parked whatever is posted".into());
                break;
            }
            sh.post(ctx);
        }
        let failed = sh.done.load(SeqCst) < nact as u64;
        if !failed {
            // everything has returned: the value is exact
            let v = sh.get_value(ctx);
            let want = sh.init + sh.posts.load(SeqCst) - sh.succ.load(SeqCst);
            if want < 0 || v != want {
                ctx.fail(format!("value at rest {v}, expected init {} + posts {} - successes {} = {want}", sh.init, sh.posts.load(SeqCst), sh.succ.load(SeqCst)));
            }
        }
        ctx.record(false);
        if failed {
            return;
        }
        for h in threads {
            ctx.join(h);
        }
        for h in cancellers {
            ctx.join(h);
        }
        for h in cos {
            let _ = h.join();
        }
        println!(
            "posts={} successes={} cancelled={} rescues={rescues} vtime={}",
            sh.posts.load(SeqCst),
            sh.succ.load(SeqCst),
            sh.cancel_seen.load(SeqCst),
            ctx.now()
        );
    })
}
