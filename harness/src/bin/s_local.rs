//! experiment: does a stale `para` survive into the next occupant of a pooled stack?
use mayv::*;
use may::io::WaitIo;
use std::sync::atomic::{AtomicUsize, Ordering::SeqCst};
use std::sync::Arc;
use std::time::Duration;

fn main() {
    let cfg = Config::from_env();
    run(cfg, move |ctx| {
        may::config().set_pool_capacity(1);
        let flag = Arc::new(AtomicUsize::new(0));
        let f2 = flag.clone();
        let sock = may::net::UdpSocket::bind("127.0.0.1:0").unwrap();
        let a = unsafe {
            may::coroutine::spawn(move || {
                let x = 0u8;
                println!("A stack {:p}", &x);
                let r0 = sock.wait_io();
                println!("A first wait_io returned {r0}");
                f2.store(1, SeqCst);
                while f2.load(SeqCst) != 2 {
                    mayv::ctx().yield_now();
                    mayv::ctx().point();
                }
                let r = sock.wait_io();
                println!("A wait_io returned {r}");
            })
        };
        while flag.load(SeqCst) != 1 {
            ctx.yield_now();
        }
        unsafe { a.coroutine().cancel() };
        flag.store(2, SeqCst);
        println!("A join: {:?}", a.join().is_ok());
        let b = unsafe {
            may::coroutine::spawn(move || {
                let x = 0u8;
                println!("B stack {:p}", &x);
                let blk = may::sync::Blocker::current();
                let b2 = blk.clone();
                let th = mayv::ctx().spawn("unparker", move || {
                    mayv::ctx().sleep_ns(1_000_000);
                    b2.unpark();
                });
                let r = blk.park(Some(Duration::from_secs(10)));
                println!("B park result {:?}", r);
                mayv::ctx().join(th);
            })
        };
        println!("B join: {:?}", b.join().is_ok());
    })
}
