//! C15 scenario: a freshly spawned coroutine never inherits anything from the previous occupant of its
//! pooled stack.  Pool capacity 1 and strictly sequential spawns, so every coroutine runs on the stack the
//! previous one has just given back (checked through the address of a stack variable).
//!
//! Each round: a previous occupant A with a fate (MAYV_PREV, `mix` = drawn per round)
//!   fin      uses locals, sleeps, a park that times out (consumed), returns
//!   tmo      the LAST thing it does is a park that times out
//!   panic    panics in its body
//!   cpark    cancelled while (or just before) it is parked
//!   race     parked with a timeout and cancelled exactly when its timer fires
//!   cshort   cancelled while it runs; its next blocking call (sleep / yield_now / park / recv) takes the short-cut
//!   waitio   cancelled while it runs, then `wait_io` (absorbs the cancel), returns normally   [finding F30]
//!   cwaitio  cancelled while it is blocked in `wait_io`
//!   iotmo    a socket read that times out
//!   cio      cancelled while it is blocked in a socket read
//!   cdrop    cancelled while parked; a guard on its stack makes blocking calls while the Cancel unwinds
//!   dpanic   DETACHED (its JoinHandle is dropped before it runs on) and panics: nobody takes the payload over
//!   iorace   a socket read with a 1 ms timeout whose data is sent at exactly the virtual instant of the timeout,
//!            then A ends without another blocking call (whatever the io timer left in the result slot must have
//!            been consumed by this read)
//!   iorace2  like iorace, then A goes on: its own NEXT blocking call (a read with a 10 s timeout answered after
//!            1 ms, or a park(10 s) unparked after 1 ms) must not report the timeout of the read before
//!   (dpanic / iorace / iorace2 are not drawn by `mix`, they are asked for by name)
//! then the new occupant B makes its FIRST blocking call (MAYV_FIRST, `mix` = drawn per round)
//!   park     Blocker::park(10 s), unparked by a thread after 1 ms
//!   sleep    sleep(2 ms)
//!   recv     mpsc recv, a thread sends after 1 ms          recvt  recv_timeout(10 s), likewise
//!   sem      Semphore::wait_timeout(10 s), posted after 1 ms
//!   io       UDP recv with a read timeout of 10 s, a datagram is sent after 1 ms
//!   cancel   (by name only) park(None), CANCELLED after 1 ms and joined: the join must report the cancellation
//!            (generator::Error::Cancel), not a panic payload that an earlier occupant left in the pooled generator
//!            (C13: the payload of a panic stays with the coroutine that panicked; C15: nothing is inherited)
//!
//! Oracles on the implementation:
//!  * B's first blocking call is neither Timeout nor Canceled nor early: it returns the event, not before 1 ms
//!    (2 ms for sleep) of virtual time, and B ends normally (no stray Cancel panic: join is Ok);
//!  * B's coroutine-local values are fresh (the initialiser runs on first access, initial value), survive its
//!    blocking call (and whatever migration came with it), and are invisible to A / to the main thread;
//!  * every value created by A and by B is dropped exactly once, after the coroutine ended, also when it
//!    panicked or was cancelled;
//!  * the main thread's fallback values are untouched by all of this and never dropped;
//!  * A ends the way its fate says (normal / panic payload / Cancel), nobody hangs.
use may::io::WaitIo;
use mayv::*;
use std::cell::Cell;
use std::sync::atomic::{AtomicU64, AtomicUsize, Ordering::SeqCst};
use std::sync::{Arc, Mutex};
use std::time::Duration;

fn envs(k: &str, d: &str) -> String {
    std::env::var(k).unwrap_or_else(|_| d.into())
}
fn envn(k: &str, d: u64) -> u64 {
    std::env::var(k).ok().and_then(|s| s.parse().ok()).unwrap_or(d)
}

const NK: usize = 2;
const MAXO: usize = 64;
const MAIN: usize = MAXO - 1;
#[allow(clippy::declare_interior_mutable_const)]
const Z: AtomicUsize = AtomicUsize::new(0);
#[allow(clippy::declare_interior_mutable_const)]
const ZR: [AtomicUsize; NK] = [Z; NK];
static INITS: [[AtomicUsize; NK]; MAXO] = [ZR; MAXO];
static DROPS: [[AtomicUsize; NK]; MAXO] = [ZR; MAXO];
static CUR_OWNER: AtomicUsize = AtomicUsize::new(0);
/// set while an owner's coroutine is still inside its body (a drop before the end is an error)
static ALIVE: [AtomicUsize; MAXO] = [Z; MAXO];

struct Val {
    owner: usize,
    key: usize,
    cell: Cell<i64>,
}
impl Val {
    fn new(key: usize) -> Val {
        let owner = CUR_OWNER.load(SeqCst);
        INITS[owner][key].fetch_add(1, SeqCst);
        Val { owner, key, cell: Cell::new(100 * (key as i64 + 1)) }
    }
}
impl Drop for Val {
    fn drop(&mut self) {
        if ALIVE[self.owner].load(SeqCst) != 0 {
            mayv::ctx().fail(format!("a local value of owner {} was dropped before its coroutine ended", self.owner));
        }
        DROPS[self.owner][self.key].fetch_add(1, SeqCst);
    }
}
may::coroutine_local!(static K0: Val = Val::new(0));
may::coroutine_local!(static K1: Val = Val::new(1));

/// first accesses of a new owner: the initialiser must run, the initial values must be seen; then store
fn touch_locals(owner: usize, who: &str) {
    let c = mayv::ctx();
    CUR_OWNER.store(owner, SeqCst);
    for k in 0..NK {
        let before = INITS[owner][k].load(SeqCst);
        let (v, o) = if k == 0 { K0.with(|x| (x.cell.get(), x.owner)) } else { K1.with(|x| (x.cell.get(), x.owner)) };
        if INITS[owner][k].load(SeqCst) != before + 1 {
            c.fail(format!("{who}: first access to key {k} did not run the initialiser: the value of an earlier coroutine is visible ({v}, created by owner {o})"));
        }
        if v != 100 * (k as i64 + 1) || o != owner {
            c.fail(format!("{who}: first access to key {k} sees {v} created by owner {o}"));
        }
    }
    K1.with(|x| x.cell.set(7 * owner as i64 + 1));
}
/// later accesses: still this owner's values, no second initialisation
fn check_locals_kept(owner: usize, who: &str) {
    let c = mayv::ctx();
    CUR_OWNER.store(owner, SeqCst);
    let (v0, o0) = K0.with(|x| (x.cell.get(), x.owner));
    let (v1, o1) = K1.with(|x| (x.cell.get(), x.owner));
    if (v0, o0, v1, o1) != (100, owner, 7 * owner as i64 + 1, owner) {
        c.fail(format!("{who}: locals changed across a blocking call: key0 = {v0} (owner {o0}), key1 = {v1} (owner {o1})"));
    }
    for k in 0..NK {
        if INITS[owner][k].load(SeqCst) != 1 {
            c.fail(format!("{who}: initialiser of key {k} ran {} times", INITS[owner][k].load(SeqCst)));
        }
    }
}
/// after the coroutine of `owner` was joined: its values are dropped exactly once (drop_coroutine runs after the join is triggered)
fn wait_dropped(owner: usize, who: &str) {
    let c = mayv::ctx();
    let mut spins = 0;
    while (0..NK).any(|k| DROPS[owner][k].load(SeqCst) < INITS[owner][k].load(SeqCst)) && spins < 3000 {
        c.yield_now();
        spins += 1;
    }
    for k in 0..NK {
        let (i, d) = (INITS[owner][k].load(SeqCst), DROPS[owner][k].load(SeqCst));
        if i != d {
            c.fail(format!("{who}: {i} values of key {k} created, {d} dropped after the coroutine ended"));
        }
    }
}

struct Round {
    stage: AtomicUsize,
    t_park: AtomicU64,
    stack: AtomicUsize,
    blocker: Mutex<Option<Arc<may::sync::Blocker>>>,
}

/// mark the owner's body as left, also when a panic / cancel unwinds it
struct AliveGuard(usize);
impl Drop for AliveGuard {
    fn drop(&mut self) {
        ALIVE[self.0].store(0, SeqCst);
    }
}
/// a guard whose Drop makes blocking calls (they run while a Cancel panic unwinds the stack)
/// a destructor that only yields (a cancellation point that sets the generator's error slot when a cancel is pending)
struct YieldDrop;
impl Drop for YieldDrop {
    fn drop(&mut self) {
        may::coroutine::yield_now();
    }
}

struct BlockingDrop;
impl Drop for BlockingDrop {
    fn drop(&mut self) {
        may::coroutine::sleep(Duration::from_micros(100));
        may::coroutine::yield_now();
        let b = may::sync::Blocker::current();
        let _ = b.park(Some(Duration::from_micros(200)));
    }
}

fn note_stack(r: &Round) {
    let x = 0u8;
    r.stack.store(&x as *const u8 as usize, SeqCst);
}

fn spin_until(r: &Round, v: usize) {
    while r.stage.load(SeqCst) != v {
        mayv::ctx().yield_now();
        mayv::ctx().point();
    }
}

#[derive(Clone, Copy, PartialEq, Debug)]
enum Exp {
    Ok,
    Panic,
    Cancel,
    Any,
}

fn main() {
    let mut cfg = Config::from_env();
    cfg.poll_io = true;
    let prev = envs("MAYV_PREV", "mix");
    let first = envs("MAYV_FIRST", "mix");
    let rounds = envn("MAYV_ROUNDS", 3) as usize;
    run(cfg, move |ctx| {
        may::config().set_pool_capacity(1);
        let fates = ["fin", "tmo", "panic", "cpark", "race", "cshort", "waitio", "cwaitio", "iotmo", "cio", "cdrop", "urace", "cpd"];
        let firsts = ["park", "sleep", "recv", "recvt", "sem", "io"];
        // asked for by name only (the draws of `mix` stay what they were)
        let fates_named = ["dpanic", "iorace", "iorace2"];
        let firsts_named = ["cancel"];
        // the main thread's fallback values
        touch_locals(MAIN, "main thread");
        let mut owner = 0usize;
        let mut last_stack = 0usize;
        let mut reuse = 0;
        for round in 0..rounds {
            let fate: &'static str = if prev == "mix" { fates[(ctx.rand() % fates.len() as u64) as usize] } else { fates.iter().chain(fates_named.iter()).copied().find(|f| *f == prev).expect("MAYV_PREV") };
            let fst: &'static str = if first == "mix" { firsts[(ctx.rand() % firsts.len() as u64) as usize] } else { firsts.iter().chain(firsts_named.iter()).copied().find(|f| *f == first).expect("MAYV_FIRST") };
            let sub = ctx.rand();

            // ---------------------------------------------------------------- previous occupant A
            let a = owner;
            owner += 1;
            let r = Arc::new(Round { stage: AtomicUsize::new(0), t_park: AtomicU64::new(0), stack: AtomicUsize::new(0), blocker: Mutex::new(None) });
            let r2 = r.clone();
            let sa = may::net::UdpSocket::bind("127.0.0.1:0").expect("bind");
            let sb = may::net::UdpSocket::bind("127.0.0.1:0").expect("bind");
            sa.connect(sb.local_addr().unwrap()).unwrap();
            sb.connect(sa.local_addr().unwrap()).unwrap();
            let (_tx_a, rx_a) = may::sync::mpsc::channel::<u32>();
            ALIVE[a].store(1, SeqCst);
            let ha = unsafe {
                may::coroutine::spawn(move || {
                    let r = r2;
                    let _alive = AliveGuard(a);
                    note_stack(&r);
                    let who = format!("previous occupant {a} ({fate})");
                    touch_locals(a, &who);
                    let c = mayv::ctx();
                    match fate {
                        "fin" => {
                            may::coroutine::sleep(Duration::from_micros(500));
                            let b = may::sync::Blocker::current();
                            let t0 = c.now();
                            match b.park(Some(Duration::from_micros(300))) {
                                Err(may::coroutine::ParkError::Timeout) if c.now() >= t0 + 300_000 => {}
                                x => c.fail(format!("{who}: park(300us) that nobody unparks returned {x:?} after {} ns", c.now() - t0)),
                            }
                            may::coroutine::yield_now();
                            check_locals_kept(a, &who);
                        }
                        "tmo" => {
                            if sub & 1 == 0 {
                                let b = may::sync::Blocker::current();
                                let _ = b.park(Some(Duration::from_micros(500)));
                            } else {
                                may::coroutine::sleep(Duration::from_micros(500));
                            }
                        }
                        "panic" => {
                            may::coroutine::sleep(Duration::from_micros(200));
                            panic!("boom");
                        }
                        "cpark" | "cdrop" => {
                            let _g = if fate == "cdrop" { Some(BlockingDrop) } else { None };
                            let b = may::sync::Blocker::current();
                            r.stage.store(1, SeqCst);
                            let x = b.park(None);
                            c.fail(format!("{who}: cancelled park returned {x:?} instead of unwinding"));
                        }
                        "race" => {
                            let b = may::sync::Blocker::current();
                            r.t_park.store(c.now(), SeqCst);
                            r.stage.store(1, SeqCst);
                            let _ = b.park(Some(Duration::from_millis(1)));
                            // whichever of the timer and the cancel was first: go on blocking
                            may::coroutine::sleep(Duration::from_micros(100));
                            may::coroutine::yield_now();
                        }
                        "urace" => {
                            // unparked exactly when its timer fires, then ends WITHOUT another blocking call: whatever
                            // the timer left behind must have been consumed by this park
                            let b = may::sync::Blocker::current();
                            *r.blocker.lock().unwrap() = Some(b.clone());
                            r.t_park.store(c.now(), SeqCst);
                            r.stage.store(1, SeqCst);
                            let _ = b.park(Some(Duration::from_millis(1)));
                        }
                        "cpd" => {
                            // cancelled while running (the request stays pending), then panics ON ITS OWN; a destructor
                            // reaches a cancellation point during that unwinding
                            r.stage.store(1, SeqCst);
                            spin_until(&r, 2);
                            let _g = YieldDrop;
                            panic!("boom");
                        }
                        "cshort" => {
                            r.stage.store(1, SeqCst);
                            spin_until(&r, 2);
                            match sub % 4 {
                                0 => may::coroutine::sleep(Duration::from_millis(1)),
                                1 => may::coroutine::yield_now(),
                                2 => {
                                    let _ = may::sync::Blocker::current().park(Some(Duration::from_millis(1)));
                                }
                                _ => {
                                    let _ = rx_a.recv();
                                }
                            }
                            c.fail(format!("{who}: a blocking call of a cancelled coroutine returned"));
                        }
                        "waitio" => {
                            // eat the initial writable edge, then get cancelled while running
                            let _ = sb.wait_io();
                            r.stage.store(1, SeqCst);
                            spin_until(&r, 2);
                            let _ = sb.wait_io();
                            check_locals_kept(a, &who);
                        }
                        "cwaitio" => {
                            let _ = sb.wait_io();
                            r.stage.store(1, SeqCst);
                            let _ = sb.wait_io();
                            check_locals_kept(a, &who);
                        }
                        "iotmo" => {
                            sb.set_read_timeout(Some(Duration::from_millis(1))).unwrap();
                            let mut buf = [0u8; 8];
                            match sb.recv(&mut buf) {
                                Err(e) if e.kind() == std::io::ErrorKind::TimedOut => {}
                                x => c.fail(format!("{who}: read with a 1 ms timeout and no data returned {x:?}")),
                            }
                        }
                        "dpanic" => {
                            // main drops the JoinHandle first: this coroutine is detached when it panics
                            spin_until(&r, 1);
                            may::coroutine::sleep(Duration::from_micros(200));
                            panic!("boom of the DETACHED previous occupant");
                        }
                        "iorace" | "iorace2" => {
                            sb.set_read_timeout(Some(Duration::from_millis(1))).unwrap();
                            let mut buf = [0u8; 8];
                            r.t_park.store(c.now(), SeqCst);
                            r.stage.store(1, SeqCst);
                            // the datagram is sent at the instant of the timeout: either outcome is fine
                            match sb.recv(&mut buf) {
                                Ok(3) => {}
                                Err(e) if e.kind() == std::io::ErrorKind::TimedOut => {}
                                x => c.fail(format!("{who}: read with a 1 ms timeout and a datagram sent at 1 ms returned {x:?}")),
                            }
                            if fate == "iorace2" {
                                // A's own next blocking call: the event comes 1 ms after stage 2, the timeout is 10 s
                                let t0 = c.now();
                                if sub & 2 == 0 {
                                    sb.set_read_timeout(Some(Duration::from_secs(10))).unwrap();
                                    r.stage.store(2, SeqCst);
                                    match sb.recv(&mut buf) {
                                        Ok(3) => {}
                                        x => c.fail(format!("{who}: the NEXT read (timeout 10 s, answered after 1 ms) returned {x:?} after {} ns: the stale timeout of the read before", c.now() - t0)),
                                    }
                                } else {
                                    let b = may::sync::Blocker::current();
                                    *r.blocker.lock().unwrap() = Some(b.clone());
                                    r.stage.store(2, SeqCst);
                                    match b.park(Some(Duration::from_secs(10))) {
                                        Ok(()) => {}
                                        x => c.fail(format!("{who}: the NEXT blocking call park(10 s), unparked after 1 ms, returned {x:?} after {} ns: the stale timeout of the read before", c.now() - t0)),
                                    }
                                }
                                check_locals_kept(a, &who);
                            }
                        }
                        "cio" => {
                            sb.set_read_timeout(Some(Duration::from_secs(10))).unwrap();
                            let mut buf = [0u8; 8];
                            r.stage.store(1, SeqCst);
                            let x = sb.recv(&mut buf);
                            c.fail(format!("{who}: cancelled read returned {x:?} instead of unwinding"));
                        }
                        _ => unreachable!(),
                    }
                })
            };
            let mut ha = Some(ha);
            // main: deliver the cancel the fate asks for
            let exp = match fate {
                "dpanic" => {
                    // detach it, then let it panic; nobody can join it: wait for the end of its body
                    drop(ha.take());
                    r.stage.store(1, SeqCst);
                    while ALIVE[a].load(SeqCst) != 0 {
                        ctx.yield_now();
                    }
                    Exp::Any
                }
                "iorace" | "iorace2" => {
                    while r.stage.load(SeqCst) != 1 {
                        ctx.yield_now();
                    }
                    // the scheduler wakes ONE of the threads whose deadlines are equal and lets it run on alone, so a
                    // sleep until the instant of the timeout never interleaves with the timer handler (only a stall of
                    // the handler's thread does: directed runs, 150 us later lands inside a 300 us stall).  Polling for
                    // the instant does: the clock then jumps to the timer's deadline while this thread stays runnable
                    let mode = sub >> 4 & 3;
                    let due = r.t_park.load(SeqCst) + 1_000_000 + [0u64, 150_000, 0, 0][mode as usize];
                    if mode < 2 {
                        let now = ctx.now();
                        if due > now {
                            ctx.sleep_ns(due - now);
                        }
                    } else {
                        while ctx.now() < due {
                            ctx.yield_now();
                        }
                    }
                    for _ in 0..(sub >> 8) % 12 {
                        ctx.point();
                    }
                    sa.send(b"abc").unwrap();
                    if fate == "iorace2" {
                        while r.stage.load(SeqCst) != 2 {
                            ctx.yield_now();
                        }
                        ctx.sleep_ns(1_000_000);
                        if sub & 2 == 0 {
                            sa.send(b"xyz").unwrap();
                        } else {
                            r.blocker.lock().unwrap().take().unwrap().unpark();
                        }
                    }
                    Exp::Ok
                }
                "fin" | "tmo" | "iotmo" => Exp::Ok,
                "panic" => Exp::Panic,
                "cpark" | "cdrop" | "cio" => {
                    while r.stage.load(SeqCst) != 1 {
                        ctx.yield_now();
                    }
                    ctx.sleep_ns([0u64, 300_000][(sub >> 4 & 1) as usize]);
                    for _ in 0..(sub >> 8) % 30 {
                        ctx.point();
                    }
                    unsafe { ha.as_ref().unwrap().coroutine().cancel() };
                    Exp::Cancel
                }
                "race" => {
                    while r.stage.load(SeqCst) != 1 {
                        ctx.yield_now();
                    }
                    let due = r.t_park.load(SeqCst) + 1_000_000;
                    let now = ctx.now();
                    if due > now {
                        ctx.sleep_ns(due - now);
                    }
                    unsafe { ha.as_ref().unwrap().coroutine().cancel() };
                    Exp::Any
                }
                "urace" => {
                    while r.stage.load(SeqCst) != 1 {
                        ctx.yield_now();
                    }
                    let due = r.t_park.load(SeqCst) + 1_000_000;
                    let now = ctx.now();
                    if due > now {
                        ctx.sleep_ns(due - now);
                    }
                    for _ in 0..(sub >> 8) % 12 {
                        ctx.point();
                    }
                    if let Some(b) = r.blocker.lock().unwrap().take() {
                        b.unpark();
                    }
                    Exp::Ok
                }
                "cpd" => {
                    while r.stage.load(SeqCst) != 1 {
                        ctx.yield_now();
                    }
                    unsafe { ha.as_ref().unwrap().coroutine().cancel() };
                    r.stage.store(2, SeqCst);
                    Exp::Panic
                }
                "cshort" | "waitio" => {
                    while r.stage.load(SeqCst) != 1 {
                        ctx.yield_now();
                    }
                    unsafe { ha.as_ref().unwrap().coroutine().cancel() };
                    r.stage.store(2, SeqCst);
                    if fate == "waitio" { Exp::Ok } else { Exp::Cancel }
                }
                "cwaitio" => {
                    while r.stage.load(SeqCst) != 1 {
                        ctx.yield_now();
                    }
                    ctx.sleep_ns(300_000);
                    unsafe { ha.as_ref().unwrap().coroutine().cancel() };
                    Exp::Ok
                }
                _ => unreachable!(),
            };
            let res = match ha.take() {
                Some(h) => h.join(),
                None => Ok(()),
            };
            let got = match &res {
                Ok(()) if fate == "dpanic" => Exp::Any,
                Ok(()) => Exp::Ok,
                Err(e) => {
                    if e.downcast_ref::<&str>().map(|s| *s == "boom").unwrap_or(false) {
                        Exp::Panic
                    } else if e.downcast_ref::<&str>().is_some() || e.downcast_ref::<String>().is_some() {
                        ctx.fail(format!("previous occupant {a} ({fate}) ended with an unexpected panic"));
                        Exp::Any
                    } else {
                        Exp::Cancel
                    }
                }
            };
            if exp != Exp::Any && got != Exp::Any && exp != got {
                ctx.fail(format!("previous occupant {a} ({fate}) ended as {got:?}, expected {exp:?}"));
            }
            wait_dropped(a, &format!("previous occupant {a} ({fate})"));
            let st_a = r.stack.load(SeqCst);
            if last_stack != 0 && st_a.abs_diff(last_stack) < 0x10000 {
                reuse += 1;
            }

            // ---------------------------------------------------------------- new occupant B
            let b = owner;
            owner += 1;
            let rb = Arc::new(Round { stage: AtomicUsize::new(0), t_park: AtomicU64::new(0), stack: AtomicUsize::new(0), blocker: Mutex::new(None) });
            let rb2 = rb.clone();
            let (tx, rx) = may::sync::mpsc::channel::<u32>();
            let sem = Arc::new(may::sync::Semphore::new(0));
            let sem2 = sem.clone();
            let ua = may::net::UdpSocket::bind("127.0.0.1:0").expect("bind");
            let ub = may::net::UdpSocket::bind("127.0.0.1:0").expect("bind");
            ua.connect(ub.local_addr().unwrap()).unwrap();
            ub.connect(ua.local_addr().unwrap()).unwrap();
            ALIVE[b].store(1, SeqCst);
            let hb = unsafe {
                may::coroutine::spawn(move || {
                    let r = rb2;
                    let _alive = AliveGuard(b);
                    note_stack(&r);
                    let who = format!("new occupant {b} (after {fate}, first call {fst})");
                    touch_locals(b, &who);
                    let c = mayv::ctx();
                    let t0 = c.now();
                    let mut min = 1_000_000;
                    let verdict: Result<(), String> = match fst {
                        "park" => {
                            let blk = may::sync::Blocker::current();
                            *r.blocker.lock().unwrap() = Some(blk.clone());
                            r.stage.store(10, SeqCst);
                            blk.park(Some(Duration::from_secs(10))).map_err(|e| format!("{e:?}"))
                        }
                        "sleep" => {
                            min = 2_000_000;
                            may::coroutine::sleep(Duration::from_millis(2));
                            Ok(())
                        }
                        "recv" => {
                            r.stage.store(10, SeqCst);
                            rx.recv().map(|_| ()).map_err(|e| format!("{e:?}"))
                        }
                        "recvt" => {
                            r.stage.store(10, SeqCst);
                            rx.recv_timeout(Duration::from_secs(10)).map(|_| ()).map_err(|e| format!("{e:?}"))
                        }
                        "sem" => {
                            r.stage.store(10, SeqCst);
                            if sem2.wait_timeout(Duration::from_secs(10)) {
                                Ok(())
                            } else {
                                Err("Timeout".into())
                            }
                        }
                        "cancel" => {
                            let blk = may::sync::Blocker::current();
                            r.stage.store(10, SeqCst);
                            let x = blk.park(None);
                            Err(format!("cancelled park returned {x:?} instead of unwinding"))
                        }
                        "io" => {
                            ub.set_read_timeout(Some(Duration::from_secs(10))).unwrap();
                            let mut buf = [0u8; 8];
                            r.stage.store(10, SeqCst);
                            match ub.recv(&mut buf) {
                                Ok(3) => Ok(()),
                                x => Err(format!("{x:?}")),
                            }
                        }
                        _ => unreachable!(),
                    };
                    let dt = c.now() - t0;
                    match verdict {
                        Err(e) => c.fail(format!("{who}: spurious result {e} after {dt} ns: inherited from the previous occupant of the stack")),
                        Ok(()) if dt < min => c.fail(format!("{who}: returned after {dt} ns, before the event it waits for")),
                        Ok(()) => {}
                    }
                    check_locals_kept(b, &who);
                    may::coroutine::yield_now();
                    check_locals_kept(b, &who);
                })
            };
            // the event B waits for comes 1 ms after B started to wait
            if fst != "sleep" {
                while rb.stage.load(SeqCst) != 10 {
                    ctx.yield_now();
                }
                ctx.sleep_ns(1_000_000);
                match fst {
                    "park" => rb.blocker.lock().unwrap().take().unwrap().unpark(),
                    "recv" | "recvt" => tx.send(1).unwrap(),
                    "sem" => sem.post(),
                    "cancel" => unsafe { hb.coroutine().cancel() },
                    _ => {
                        ua.send(b"abc").unwrap();
                    }
                }
            }
            match hb.join() {
                Ok(()) if fst == "cancel" => ctx.fail(format!("new occupant {b} (after {fate}) was cancelled while parked but its join reports a normal end")),
                Err(e) if fst == "cancel" => {
                    // the oracle of C13 (i) / C15: the join of a cancelled coroutine reports the cancellation
                    if let Some(what) = e.downcast_ref::<&str>().map(|s| s.to_string()).or_else(|| e.downcast_ref::<String>().cloned()) {
                        ctx.fail(format!("C13/C15 stale panic payload: the new occupant of the stack (after {fate}) was cancelled while parked, its join must report Error::Cancel but reports the panic payload {what:?} of somebody else (left in the pooled generator by an earlier occupant of the stack)"));
                    }
                }
                Ok(()) => {}
                Err(e) => {
                    let what = e.downcast_ref::<&str>().map(|s| s.to_string()).or_else(|| e.downcast_ref::<String>().cloned()).unwrap_or_else(|| "Cancel".into());
                    ctx.fail(format!("new occupant {b} (after {fate}, first call {fst}) did not end normally: {what} (nobody cancelled it)"));
                }
            }
            wait_dropped(b, &format!("new occupant {b}"));
            let st_b = rb.stack.load(SeqCst);
            if st_a.abs_diff(st_b) < 0x10000 {
                reuse += 1;
            }
            last_stack = st_b;
            // the thread fallback is somebody else's business
            check_locals_kept(MAIN, "main thread");
            let _ = round;
        }
        if reuse == 0 {
            ctx.fail("no stack was reused in this run: the scenario did not exercise the pool".into());
        }
        for o in 0..owner {
            for k in 0..NK {
                let (i, d) = (INITS[o][k].load(SeqCst), DROPS[o][k].load(SeqCst));
                if i != 1 || d != 1 {
                    ctx.fail(format!("owner {o} key {k}: created {i} dropped {d} at the end of the run"));
                }
            }
        }
        for k in 0..NK {
            if DROPS[MAIN][k].load(SeqCst) != 0 || INITS[MAIN][k].load(SeqCst) != 1 {
                ctx.fail("the main thread's fallback values were re-created or dropped".into());
            }
        }
        println!("STATS stack_reuse={reuse} coroutines={owner}");
    })
}
