use mayv::*;
use std::sync::Arc;
use std::time::Duration;

fn main() {
    let cfg = Config::from_env();
    run(cfg, |ctx| {
        let sem = Arc::new(may::sync::Semphore::new(0));
        let s2 = sem.clone();
        let h = unsafe {
            may::coroutine::Builder::new()
                .name("p".into())
                .spawn(move || {
                    let a = s2.wait_timeout(Duration::from_millis(5));
                    let b = s2.wait_timeout(Duration::from_millis(5));
                    (a, b)
                })
                .unwrap()
        };
        let s3 = sem.clone();
        let t = ctx.spawn("u", move || {
            mayv::ctx().sleep_ns(5_000_000);
            s3.post();
        });
        let r = h.join().unwrap();
        ctx.join(t);
        println!("result={:?} vtime={}", r, ctx.now());
    })
}
