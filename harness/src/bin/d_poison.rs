//! C13 differential driver for src/sync/poison.rs: the REAL `may::sync::Mutex` / `RwLock` (write and read
//! guards) in every guard-drop situation, in thread and in coroutine context, on a clean and on an already
//! poisoned lock.  For each guard one line
//!
//!   CASE mode kind isco pre gpan tpan creq cunw => lock_err poisoned released later_err get_mut_err into_inner_err
//!
//! is printed; `check` evaluates `MayV.Rt.PoisonModel.poison_case` on the inputs by vm_compute and compares.
//!
//! inputs   mode   which situation (below; the model ignores it, it keeps the cases apart)
//!          kind   0 Mutex, 1 RwLock write guard, 2 RwLock read guard
//!          isco   1 = the guard lives in a coroutine
//!          pre    1 = the lock was poisoned before
//!          gpan   MEASURED: std::thread::panicking() right before the lock call (what Flag::borrow records)
//!          tpan   MEASURED: std::thread::panicking() right before the guard is dropped (what Flag::done reads)
//!          creq   1 = cancel() has been called on the coroutine before the guard is dropped (Cancel.state = 1;
//!                 the cancel is never disabled in these runs)
//!          cunw   1 = the cancel panic has been raised in this coroutine before the guard is dropped (what
//!                 Cancel::is_cancel_unwinding() reports since fix bce9086; the mark is never cleared)
//! outputs  lock_err        the lock()/write()/read() call that made the guard returned Err(Poisoned(guard))
//!          poisoned        is_poisoned() after the guard is gone
//!          released        a try_lock()/try_write() after the guard is gone hands out a guard (Ok or inside Poisoned)
//!          later_err       ... and that result was Err(Poisoned)
//!          get_mut_err     get_mut() is Err
//!          into_inner_err  into_inner() is Err
//!
//! modes  0 guard dropped normally                      1 panic (payload 7u64) raised while the guard is held
//!        2 guard made AND dropped inside a Drop impl that runs during a panic unwinding (made while panicking)
//!        3 coroutine cancelled at a blocking call while it holds the guard (cancellation unwind)
//!        4 nested: panic while guard A is held and a Drop impl (declared later) locks B: CASE for A (mode 4) and B (mode 14)
//!        5 cancel() requested on the coroutine itself while it holds the guard, then a GENUINE panic
//!        6 guard made inside a Drop impl during a panic unwinding, kept, dropped after the panic was caught
//!        7 a panic raised and caught (catch_unwind) while the guard is held; guard dropped normally
//!        8 guard made and dropped inside a Drop impl that runs during a CANCELLATION unwinding
//!        9 cancel() requested first, then lock (uncontended: no cancellation point), then a genuine panic
//!       10 the coroutine's own code catches its cancel panic (catch_unwind around a cancellation point) and goes on,
//!          then takes the lock and panics for real inside the guard
//!
//! Oracles on the implementation (independent of the Coq function): expected poisoning per mode written down by
//! hand from the property text (std semantics + "cancellation never poisons"), lock always released, Err results
//! consistent with is_poisoned(), the protected value intact, join() delivers exactly the payload / Cancel.
//! Modes 5 and 9 (a genuine panic in a coroutine whose cancel flag is set) must poison since fix bce9086 (finding
//! F32); MAYV_STRICT=0 switches that expectation off (to look at the code before the fix).  Mode 10 is the residue of
//! that fix - the mark set by the cancel panic is never cleared - and is checked by the oracle only with MAYV_STRICT10=1.
use may::sync::{Mutex, MutexGuard, RwLock, RwLockReadGuard, RwLockWriteGuard};
use mayv::*;
use std::alloc::{GlobalAlloc, Layout, System};
use std::cell::RefCell;
use std::panic::{catch_unwind, panic_any, AssertUnwindSafe};
use std::sync::atomic::{AtomicBool, AtomicI64, Ordering::SeqCst};
use std::sync::{Arc, TryLockError};
use std::thread::panicking;
use std::time::Duration;

struct Leak;
unsafe impl GlobalAlloc for Leak {
    unsafe fn alloc(&self, l: Layout) -> *mut u8 {
        System.alloc(l)
    }
    unsafe fn dealloc(&self, _p: *mut u8, _l: Layout) {}
}
#[global_allocator]
static GLOBAL: Leak = Leak;

fn envn(k: &str, d: u64) -> u64 {
    std::env::var(k).ok().and_then(|s| s.parse().ok()).unwrap_or(d)
}

#[derive(Clone, Copy, PartialEq, Debug)]
enum Kind {
    M = 0,
    W = 1,
    R = 2,
}

/// a lock of one of the three guard kinds, at a stable address
#[derive(Clone, Copy)]
struct Lk {
    kind: Kind,
    m: usize,
    rw: usize,
}
impl Lk {
    fn new(kind: Kind) -> Lk {
        Lk { kind, m: Box::into_raw(Box::new(Mutex::new(100u32))) as usize, rw: Box::into_raw(Box::new(RwLock::new(100u32))) as usize }
    }
    fn m(&self) -> &'static Mutex<u32> {
        unsafe { &*(self.m as *const Mutex<u32>) }
    }
    fn rw(&self) -> &'static RwLock<u32> {
        unsafe { &*(self.rw as *const RwLock<u32>) }
    }
}

enum G {
    M(MutexGuard<'static, u32>),
    W(RwLockWriteGuard<'static, u32>),
    R(RwLockReadGuard<'static, u32>),
}

struct Meas {
    gpan: AtomicI64,
    tpan: AtomicI64,
    lock_err: AtomicI64,
    writes: AtomicI64,
}
impl Meas {
    fn new() -> Arc<Meas> {
        Arc::new(Meas { gpan: AtomicI64::new(-1), tpan: AtomicI64::new(-1), lock_err: AtomicI64::new(-1), writes: AtomicI64::new(0) })
    }
}

/// lock()/write()/read(): the guard is taken out of a Poisoned error
fn take(l: Lk, meas: &Meas) -> G {
    meas.gpan.store(panicking() as i64, SeqCst);
    let (mut g, e) = match l.kind {
        Kind::M => match l.m().lock() {
            Ok(g) => (G::M(g), false),
            Err(e) => (G::M(e.into_inner()), true),
        },
        Kind::W => match l.rw().write() {
            Ok(g) => (G::W(g), false),
            Err(e) => (G::W(e.into_inner()), true),
        },
        Kind::R => match l.rw().read() {
            Ok(g) => (G::R(g), false),
            Err(e) => (G::R(e.into_inner()), true),
        },
    };
    meas.lock_err.store(e as i64, SeqCst);
    // the guard works: write through it (read guards: read)
    match &mut g {
        G::M(x) => {
            **x += 1;
            meas.writes.fetch_add(1, SeqCst);
        }
        G::W(x) => {
            **x += 1;
            meas.writes.fetch_add(1, SeqCst);
        }
        G::R(x) => {
            let _ = **x;
        }
    }
    g
}

/// declared right after a guard: dropped right before it
struct Probe(Arc<Meas>);
impl Drop for Probe {
    fn drop(&mut self) {
        self.0.tpan.store(panicking() as i64, SeqCst);
    }
}

/// takes and drops a guard inside its destructor
struct LockInDrop {
    l: Lk,
    meas: Arc<Meas>,
}
impl Drop for LockInDrop {
    fn drop(&mut self) {
        let _g = take(self.l, &self.meas);
        let _p = Probe(self.meas.clone());
    }
}

/// takes a guard inside its destructor and hands it out
struct Stash<'a> {
    l: Lk,
    meas: Arc<Meas>,
    slot: &'a RefCell<Option<G>>,
}
impl Drop for Stash<'_> {
    fn drop(&mut self) {
        *self.slot.borrow_mut() = Some(take(self.l, &self.meas));
    }
}

fn block_forever(how: u64) -> ! {
    loop {
        match how % 3 {
            0 => may::coroutine::yield_now(),
            1 => may::coroutine::sleep(Duration::from_millis(1)),
            _ => may::coroutine::park(),
        }
    }
}

fn body(mode: u64, l: Lk, l2: Lk, meas: Arc<Meas>, meas2: Arc<Meas>, ready: Arc<AtomicBool>, how: u64) {
    match mode {
        0 => {
            let g = take(l, &meas);
            let p = Probe(meas.clone());
            drop(p);
            drop(g);
        }
        1 => {
            let _g = take(l, &meas);
            let _p = Probe(meas.clone());
            panic_any(7u64);
        }
        2 => {
            let _d = LockInDrop { l, meas };
            panic_any(7u64);
        }
        3 => {
            let _g = take(l, &meas);
            let _p = Probe(meas.clone());
            ready.store(true, SeqCst);
            block_forever(how);
        }
        4 => {
            let _g = take(l, &meas);
            let _p = Probe(meas.clone());
            let _d = LockInDrop { l: l2, meas: meas2 };
            panic_any(7u64);
        }
        5 => {
            let _g = take(l, &meas);
            let _p = Probe(meas.clone());
            unsafe { may::coroutine::current().cancel() };
            panic_any(7u64);
        }
        6 => {
            let slot = RefCell::new(None);
            let r = catch_unwind(AssertUnwindSafe(|| {
                let _s = Stash { l, meas: meas.clone(), slot: &slot };
                panic_any(7u64);
            }));
            if r.is_ok() {
                mayv::ctx().fail("mode 6: the panic was lost".into());
            }
            let g = slot.borrow_mut().take();
            let p = Probe(meas.clone());
            drop(p);
            drop(g);
        }
        7 => {
            let g = take(l, &meas);
            let r = catch_unwind(|| {
                panic_any(7u64);
            });
            if r.is_ok() {
                mayv::ctx().fail("mode 7: the panic was lost".into());
            }
            let p = Probe(meas.clone());
            drop(p);
            drop(g);
        }
        8 => {
            let _d = LockInDrop { l, meas };
            ready.store(true, SeqCst);
            block_forever(how);
        }
        9 => {
            unsafe { may::coroutine::current().cancel() };
            let _g = take(l, &meas);
            let _p = Probe(meas.clone());
            panic_any(7u64);
        }
        10 => {
            unsafe { may::coroutine::current().cancel() };
            let r = catch_unwind(|| may::coroutine::yield_now());
            if r.is_ok() {
                mayv::ctx().fail("mode 10: the cancellation point did not raise the cancel panic".into());
            }
            let _g = take(l, &meas);
            let _p = Probe(meas.clone());
            panic_any(7u64);
        }
        _ => unreachable!(),
    }
}

/// what join() / catch_unwind reported: 0 returned, 7.. payload v as 1000+v, 1 Cancel (anything that is not a u64 / message)
fn outcome_code(r: &Result<(), Box<dyn std::any::Any + Send>>) -> i64 {
    match r {
        Ok(()) => 0,
        Err(e) => match e.downcast_ref::<u64>() {
            Some(v) => 1000 + *v as i64,
            None => {
                if e.downcast_ref::<String>().is_some() || e.downcast_ref::<&str>().is_some() {
                    2
                } else {
                    1
                }
            }
        },
    }
}

/// poison the lock beforehand: a thread-context panic inside a write guard
fn pre_poison(l: Lk) {
    let r = catch_unwind(AssertUnwindSafe(|| {
        match l.kind {
            Kind::M => {
                let _g = l.m().lock().unwrap();
                panic_any(1u64);
            }
            _ => {
                let _g = l.rw().write().unwrap();
                panic_any(1u64);
            }
        };
    }));
    assert!(r.is_err());
}

/// outputs 1.. of a CASE line, measured after the guard is gone; consumes the lock
fn inspect(ctx: &Ctx, l: Lk, what: &str, writes: i64) -> [i64; 5] {
    let poisoned = match l.kind {
        Kind::M => l.m().is_poisoned(),
        _ => l.rw().is_poisoned(),
    };
    // released?  (for a read guard: the whole lock is free again, a writer gets in)
    let (released, later_err) = match l.kind {
        Kind::M => match l.m().try_lock() {
            Ok(g) => {
                drop(g);
                (true, false)
            }
            Err(TryLockError::Poisoned(e)) => {
                let mut g = e.into_inner();
                *g += 0;
                drop(g);
                (true, true)
            }
            Err(TryLockError::WouldBlock) => (false, false),
        },
        _ => match l.rw().try_write() {
            Ok(g) => {
                drop(g);
                (true, false)
            }
            Err(TryLockError::Poisoned(e)) => {
                let mut g = e.into_inner();
                *g += 0;
                drop(g);
                (true, true)
            }
            Err(TryLockError::WouldBlock) => (false, false),
        },
    };
    if released {
        // and a reader too, and the blocking calls
        let ok = match l.kind {
            Kind::M => {
                let r = l.m().lock();
                r.is_err() == poisoned
            }
            _ => {
                let a = l.rw().read().is_err() == poisoned;
                let b = l.rw().try_read().is_err() == poisoned;
                let c = l.rw().write().is_err() == poisoned;
                a && b && c
            }
        };
        if !ok {
            ctx.fail(format!("{what}: a later lock()/read()/write() does not report Poisoned exactly when is_poisoned()"));
        }
    }
    // get_mut / into_inner need the lock itself: nobody else has it any more
    let (gm, ii, val) = match l.kind {
        Kind::M => {
            let mut b = unsafe { Box::from_raw(l.m as *mut Mutex<u32>) };
            let gm = b.get_mut().is_err();
            let (ii, v) = match b.into_inner() {
                Ok(v) => (false, v),
                Err(e) => (true, e.into_inner()),
            };
            (gm, ii, v)
        }
        _ => {
            let mut b = unsafe { Box::from_raw(l.rw as *mut RwLock<u32>) };
            let gm = b.get_mut().is_err();
            let (ii, v) = match b.into_inner() {
                Ok(v) => (false, v),
                Err(e) => (true, e.into_inner()),
            };
            (gm, ii, v)
        }
    };
    if val as i64 != 100 + writes {
        ctx.fail(format!("{what}: the protected value is {val}, expected {}", 100 + writes));
    }
    [poisoned as i64, released as i64, later_err as i64, gm as i64, ii as i64]
}

fn main() {
    let cfg = Config::from_env();
    let strict = envn("MAYV_STRICT", 1) != 0;
    let strict10 = envn("MAYV_STRICT10", 0) != 0;
    let only_mode = std::env::var("MAYV_MODE").ok().and_then(|s| s.parse::<u64>().ok());
    std::panic::set_hook(Box::new(|_| {}));
    run(cfg, move |ctx| {
        // the scheduler is created by the first spawn: do it before anything else
        unsafe { may::coroutine::spawn(|| {}) }.join().ok();
        let mut ncases = 0;
        for mode in 0..11u64 {
            if only_mode.map(|m| m != mode).unwrap_or(false) {
                continue;
            }
            for isco in [false, true] {
                if !isco && matches!(mode, 3 | 5 | 8 | 9 | 10) {
                    continue; // cancellation exists for coroutines only
                }
                for kind in [Kind::M, Kind::W, Kind::R] {
                    for pre in [false, true] {
                        let what = format!("mode {mode} {kind:?} {} pre={}", if isco { "coroutine" } else { "thread" }, pre as u8);
                        let how = ctx.rand();
                        let (l, l2) = (Lk::new(kind), Lk::new(kind));
                        let mut pre_writes = 0;
                        if pre {
                            pre_poison(l);
                            pre_poison(l2);
                            pre_writes = 0; // the pre-poisoning guard did not write
                        }
                        let (meas, meas2) = (Meas::new(), Meas::new());
                        let ready = Arc::new(AtomicBool::new(false));
                        let (m1, m2, r2) = (meas.clone(), meas2.clone(), ready.clone());
                        let mut creq = matches!(mode, 5 | 9 | 10);
                        let cunw = matches!(mode, 3 | 8 | 10);
                        let res: Result<(), Box<dyn std::any::Any + Send>> = if isco {
                            let h = unsafe { may::coroutine::spawn(move || body(mode, l, l2, m1, m2, r2, how)) };
                            if matches!(mode, 3 | 8) {
                                while !ready.load(SeqCst) {
                                    ctx.yield_now();
                                }
                                for _ in 0..(how >> 8) % 3 {
                                    ctx.yield_now();
                                }
                                unsafe { h.coroutine().cancel() };
                                creq = true;
                            }
                            h.join()
                        } else {
                            catch_unwind(AssertUnwindSafe(move || body(mode, l, l2, m1, m2, r2, how)))
                        };
                        // join delivers exactly the payload / Cancel / the return
                        let oc = outcome_code(&res);
                        let exp_oc = match mode {
                            0 | 6 | 7 => 0,
                            3 | 8 => 1,
                            _ => 1007,
                        };
                        if oc != exp_oc {
                            ctx.fail(format!("{what}: the body ended with outcome {oc} (0 return, 1 Cancel, 1000+v panic payload v), expected {exp_oc}"));
                        }
                        let mut emit = |tag: u64, l: Lk, meas: &Meas, inside: bool, genuine: bool| {
                            let (gpan, tpan, lock_err) = (meas.gpan.load(SeqCst), meas.tpan.load(SeqCst), meas.lock_err.load(SeqCst));
                            if gpan < 0 || tpan < 0 || lock_err < 0 {
                                ctx.fail(format!("{what}: the situation did not happen (gpan {gpan} tpan {tpan} lock_err {lock_err})"));
                                return;
                            }
                            let o = inspect(ctx, l, &what, meas.writes.load(SeqCst) + pre_writes);
                            println!(
                                "CASE {tag} {} {} {} {gpan} {tpan} {} {} => {lock_err} {} {} {} {} {}",
                                kind as u8, isco as u8, pre as u8, creq as u8, cunw as u8, o[0], o[1], o[2], o[3], o[4]
                            );
                            ncases += 1;
                            // hand-written expectation: poisoned iff it was before, or a write guard was dropped by a
                            // genuine panic that started while it was held
                            let cancel_flag_case = matches!(mode, 5 | 9) && !strict || mode == 10 && !strict10;
                            let exp_pois = pre || (kind != Kind::R && inside && genuine);
                            if lock_err != pre as i64 {
                                ctx.fail(format!("{what}: lock result Err={lock_err} on a lock with poisoned={}", pre as u8));
                            }
                            if o[1] != 1 {
                                ctx.fail(format!("{what}: the lock is NOT released after the guard was dropped"));
                            }
                            if (o[0] != exp_pois as i64) && !cancel_flag_case {
                                ctx.fail(format!("{what}: is_poisoned() = {} after the guard was dropped, expected {}", o[0], exp_pois as u8));
                            }
                            if o[1] == 1 && (o[2] != o[0] || o[3] != o[0] || o[4] != o[0]) {
                                ctx.fail(format!("{what}: try_lock Poisoned={} get_mut Err={} into_inner Err={} but is_poisoned()={}", o[2], o[3], o[4], o[0]));
                            }
                        };
                        match mode {
                            0 | 6 | 7 => emit(mode, l, &meas, false, false),
                            1 => emit(mode, l, &meas, true, true),
                            2 => emit(mode, l, &meas, false, true),
                            3 => emit(mode, l, &meas, true, false),
                            4 => {
                                emit(4, l, &meas, true, true);
                                emit(14, l2, &meas2, false, true);
                            }
                            5 | 9 | 10 => emit(mode, l, &meas, true, true),
                            8 => emit(mode, l, &meas, false, false),
                            _ => {}
                        }
                    }
                }
            }
        }
        if ncases == 0 {
            ctx.fail("no case ran".into());
        }
    })
}
