//! C14 scenario: a scope is never left while one of its coroutines is still running.
//!
//! A tree of tasks runs on the REAL `may::coroutine::scope` / `join!` (and `select!` for the variant in
//! which safe code cancels a scope owner: `join!` in the top half of a `select!` arm).  The root task is a
//! coroutine (MAYV_OWNER=co) or a plain thread (th).  A task may open a scope with 1..MAYV_KIDS scoped
//! children; children sleep / yield for seeded virtual durations, may open nested scopes themselves
//! (MAYV_DEPTH), may panic (MAYV_CPANIC=percent), and when they finish they touch the liveness flags of the
//! frames of ALL their ancestors.  The owner may explicitly join some handles inside the closure
//! (MAYV_EXPL=percent; the result must be the child's value), may panic inside the closure
//! (MAYV_OPANIC=percent) and may be cancelled by a thread at a seeded virtual time / hook point
//! (MAYV_CANCEL=root | any | 0).
//!
//! Oracles (implementation side, independent of the Coq model):
//!  * frame guard: every owner declares, BEFORE the scope call, a guard whose Drop runs when the frame is
//!    left (normally or by unwinding).  It fails if a child of the scope has not finished ("scope left while a
//!    child is still running") and then marks the frame dead; a child that finishes and finds an ancestor frame
//!    dead fails ("child finished after the owner's frame was gone").
//!  * a child's panic is propagated: a scope() call never returns normally when one of its children panicked,
//!    and the root's join is Err whenever any task panicked or was cancelled-and-unwound; it is Ok with the
//!    expected value otherwise.
//!  * explicit ScopedJoinHandle::join returns exactly the child's value.
//!  * nobody hangs (harness), nothing aborts (exit code).
//!
//! API records for the acceptor: see the binding coq/Rt/scope_sites.json.
use mayv::*;
use std::alloc::{GlobalAlloc, Layout, System};
use std::panic::{catch_unwind, AssertUnwindSafe};
use std::sync::atomic::{AtomicBool, AtomicUsize, Ordering::SeqCst};
use std::sync::{Arc, Mutex};
use std::time::Duration;

/// never reuse an address (the virtual ThreadPark token and the trace normaliser are keyed by address)
struct Leak;
unsafe impl GlobalAlloc for Leak {
    unsafe fn alloc(&self, l: Layout) -> *mut u8 {
        System.alloc(l)
    }
    unsafe fn dealloc(&self, _p: *mut u8, _l: Layout) {}
}
#[global_allocator]
static GLOBAL: Leak = Leak;

fn envs(k: &str, d: &str) -> String {
    std::env::var(k).unwrap_or_else(|_| d.into())
}
fn envn(k: &str, d: u64) -> u64 {
    std::env::var(k).ok().and_then(|s| s.parse().ok()).unwrap_or(d)
}

const DURS: [u64; 8] = [0, 0, 1, 400_000, 1_000_000, 1_000_000, 2_500_000, 7_000_000];

#[derive(Clone)]
struct Cfg {
    kids: u64,
    depth: u64,
    cpanic: u64,
    opanic: u64,
    expl: u64,
    mode: String, // scope | join | select
}

struct Frame {
    alive: AtomicBool,
    running: AtomicUsize,
    kid_panicked: AtomicUsize,
    name: String,
}
struct FrameGuard(Arc<Frame>);
impl Drop for FrameGuard {
    fn drop(&mut self) {
        let c = mayv::ctx();
        let r = self.0.running.load(SeqCst);
        if r != 0 {
            c.fail(format!("scope left while a child is still running: frame {} has {} unfinished children (unwinding={})", self.0.name, r, std::thread::panicking()));
        }
        self.0.alive.store(false, SeqCst);
        c.log("frame.gone", 0, 0, None);
    }
}

struct Sh {
    cfg: Cfg,
    panicked: AtomicUsize,  // tasks that really panicked (user panics)
    cancelled: AtomicBool,  // a cancel was issued
    owners: Mutex<Vec<(u64, may::coroutine::Coroutine)>>, // (path, handle) of coroutines that own a scope: cancel targets
    results_bad: AtomicUsize,
}

/// marks a scoped child finished (also when it unwinds) and checks the ancestors' frames
struct KidFin {
    frames: Vec<Arc<Frame>>,
    path: u64,
}
impl Drop for KidFin {
    fn drop(&mut self) {
        let c = mayv::ctx();
        for f in &self.frames {
            if !f.alive.load(SeqCst) {
                c.fail(format!("child {} finished after the owner's frame {} was gone", self.path, f.name));
            }
        }
        // (std::thread::panicking() is a per-thread counter and wrong after a migration: not used here)
        c.log("kid.fin", self.path, 0, None);
        self.frames[0].running.fetch_sub(1, SeqCst);
    }
}

struct Rng(u64);
impl Rng {
    fn next(&mut self) -> u64 {
        self.0 ^= self.0 >> 12;
        self.0 ^= self.0 << 25;
        self.0 ^= self.0 >> 27;
        self.0.wrapping_mul(0x2545F4914F6CDD1D) >> 8
    }
    fn pct(&mut self, p: u64) -> bool {
        self.next() % 100 < p
    }
}

fn pause(r: &mut Rng) {
    let c = mayv::ctx();
    match r.next() % 4 {
        0 => {}
        1 => {
            if may::coroutine::is_coroutine() {
                may::coroutine::yield_now()
            } else {
                c.yield_now()
            }
        }
        _ => {
            let d = DURS[(r.next() % DURS.len() as u64) as usize];
            if may::coroutine::is_coroutine() {
                may::coroutine::sleep(Duration::from_nanos(d));
            } else if d > 0 {
                c.sleep_ns(d);
            }
        }
    }
}

fn value_of(path: u64) -> u64 {
    path * 7 + 3
}

/// body of a task (root or scoped child); `anc` = frames of all ancestors, parent first
fn task(sh: Arc<Sh>, seed: u64, level: u64, path: u64, anc: Vec<Arc<Frame>>) -> u64 {
    let c = mayv::ctx();
    let mut r = Rng((seed ^ path.wrapping_mul(0x9E3779B97F4A7C15)) | 1);
    for _ in 0..8 {
        r.next();
    }
    pause(&mut r);
    let open = level < sh.cfg.depth && (level == 0 || r.pct(60));
    if open {
        if may::coroutine::is_coroutine() {
            sh.owners.lock().unwrap().push((path, may::coroutine::current()));
        }
        let k = 1 + r.next() % sh.cfg.kids;
        let fr = Arc::new(Frame { alive: AtomicBool::new(true), running: AtomicUsize::new(0), kid_panicked: AtomicUsize::new(0), name: format!("f{path}") });
        let mut frames = vec![fr.clone()];
        frames.extend_from_slice(&anc);
        // the guard is declared before the scope: it is dropped after the scope, also during unwinding
        let guard = FrameGuard(fr.clone());
        c.log("scope.open", path, k, None);
        // a child owns everything it touches (a violation must trip the oracle, not crash on a dangling borrow)
        let mk = |i: u64| {
            let (sh, frames) = (sh.clone(), frames.clone());
            move || -> u64 {
                let p = path * 5 + i + 1;
                mayv::ctx().log("kid.start", p, may::verif::current_co_id(), None);
                let fin = KidFin { frames: frames.clone(), path: p };
                let v = task(sh, seed, level + 1, p, frames);
                drop(fin);
                v
            }
        };
        let opanic = r.pct(sh.cfg.opanic);
        let opanic_at = r.next() % 3;
        let mut seeds = [0u64; 8];
        for s in seeds.iter_mut() {
            *s = r.next();
        }
        if sh.cfg.mode == "join" {
            fr.running.fetch_add(k as usize, SeqCst);
            let (k0, k1, k2, k3) = (mk(0), mk(1), mk(2), mk(3));
            match k {
                1 => may::join!(k0()),
                2 => may::join!(k0(), k1()),
                3 => may::join!(k0(), k1(), k2()),
                _ => may::join!(k0(), k1(), k2(), k3()),
            };
        } else {
            let expl = sh.cfg.expl;
            may::coroutine::scope(|s| {
                let mut r2 = Rng(seeds[0] | 1);
                let mut hs = vec![];
                for i in 0..k {
                    fr.running.fetch_add(1, SeqCst);
                    c.log("spawn.pre", path * 5 + i + 1, 0, None);
                    let h = may::go!(s, mk(i));
                    hs.push((i, h));
                    if r2.pct(30) {
                        pause(&mut r2);
                    }
                    if opanic && opanic_at == 0 && i == 0 {
                        sh.panicked.fetch_add(1, SeqCst);
                        c.log("task.panic", path, 0, None);
                        panic!("owner-panic-{path}");
                    }
                }
                pause(&mut r2);
                if opanic && opanic_at == 1 {
                    sh.panicked.fetch_add(1, SeqCst);
                    c.log("task.panic", path, 0, None);
                    panic!("owner-panic-{path}");
                }
                for (i, h) in hs {
                    if r2.pct(expl) {
                        c.log("join.call", path * 5 + i + 1, 0, None);
                        let v = h.join();
                        c.log("join.ret", path * 5 + i + 1, v, None);
                        if v != value_of(path * 5 + i + 1) {
                            sh.results_bad.fetch_add(1, SeqCst);
                            c.fail(format!("explicit join of child {} returned {v}, expected {}", path * 5 + i + 1, value_of(path * 5 + i + 1)));
                        }
                        if r2.pct(30) {
                            pause(&mut r2);
                        }
                    }
                }
                if opanic && opanic_at == 2 {
                    sh.panicked.fetch_add(1, SeqCst);
                    c.log("task.panic", path, 0, None);
                    panic!("owner-panic-{path}");
                }
                c.log("scope.close", path, 0, None);
            });
        }
        // the scope returned normally
        c.log("scope.ret", path, 0, None);
        let kp = fr.kid_panicked.load(SeqCst);
        if kp != 0 {
            c.fail(format!("scope of frame f{path} returned normally although {kp} of its children panicked"));
        }
        drop(guard);
    }
    pause(&mut r);
    if level > 0 && r.pct(sh.cfg.cpanic) {
        sh.panicked.fetch_add(1, SeqCst);
        anc[0].kid_panicked.fetch_add(1, SeqCst);
        c.log("task.panic", path, 0, None);
        panic!("kid-panic-{path}");
    }
    c.log("task.end", path, value_of(path), None);
    value_of(path)
}

/// select! variant: the first arm's top half is a join! (its owner, the select coroutine, is cancelled by
/// the Cqueue drop when another arm wins), the other arms are sleeps
fn select_root(sh: &Arc<Sh>, seed: u64) -> u64 {
    let c = mayv::ctx();
    let mut r = Rng(seed | 1);
    let d1 = DURS[(r.next() % DURS.len() as u64) as usize];
    let d2 = DURS[(r.next() % DURS.len() as u64) as usize];
    let sh2 = sh.clone();
    let arm0 = move || {
        let mut cfg = sh2.cfg.clone();
        cfg.mode = if seed & 16 == 0 { "join".into() } else { "scope".into() };
        let sh3 = Arc::new(Sh { cfg, panicked: AtomicUsize::new(0), cancelled: AtomicBool::new(false), owners: Mutex::new(vec![]), results_bad: AtomicUsize::new(0) });
        let _ = task(sh3.clone(), seed, 0, 1, vec![]);
        sh2.panicked.fetch_add(sh3.panicked.load(SeqCst), SeqCst);
    };
    c.log("select.call", 0, 0, None);
    let tok = may::select!(
        _ = arm0() => {},
        _ = may::coroutine::sleep(Duration::from_nanos(d1)) => {},
        _ = may::coroutine::sleep(Duration::from_nanos(d2)) => {}
    );
    c.log("select.ret", tok as u64, 0, None);
    value_of(0)
}

extern "C" {
    fn signal(sig: i32, h: extern "C" fn(i32)) -> usize;
}
/// a crash of the real code (use after free ...) still leaves the trace behind: exit code 5
extern "C" fn on_segv(_s: i32) {
    println!("CRASH SIGSEGV in the code under test");
    mayv::finish(mayv::ctl(), 5);
}

fn main() {
    unsafe {
        signal(11, on_segv);
        signal(7, on_segv);
    }
    let mut cfg = Config::from_env();
    if envs("MAYV_SCHED", "narrow") == "narrow" {
        cfg.sched_files = vec!["src/scoped.rs", "src/join.rs", "src/cancel.rs", "src/park.rs", "src/sync/blocking.rs", "src/cqueue.rs", "src/sync/atomic_option.rs"];
    }
    let sc = Cfg {
        kids: envn("MAYV_KIDS", 3).clamp(1, 4),
        depth: envn("MAYV_DEPTH", 1),
        cpanic: envn("MAYV_CPANIC", 0),
        opanic: envn("MAYV_OPANIC", 0),
        expl: envn("MAYV_EXPL", 30),
        mode: envs("MAYV_MODE", "scope"),
    };
    let owner_co = envs("MAYV_OWNER", "co") != "th";
    let cancel = envs("MAYV_CANCEL", "0");
    match envn("MAYV_QUIET", 1) {
        1 => std::panic::set_hook(Box::new(|_| {})),
        2 => std::panic::set_hook(Box::new(|i| {
            eprintln!("PANIC-HOOK {:?} panicking={} co={:x}\n{}", i.location(), std::thread::panicking(), may::verif::current_co_id(), std::backtrace::Backtrace::force_capture());
        })),
        _ => {}
    }
    run(cfg, move |ctx| {
        let sh = Arc::new(Sh { cfg: sc.clone(), panicked: AtomicUsize::new(0), cancelled: AtomicBool::new(false), owners: Mutex::new(vec![]), results_bad: AtomicUsize::new(0) });
        let seed = ctx.rand();
        let done = Arc::new(AtomicBool::new(false));
        let outcome: Arc<Mutex<Option<Result<u64, String>>>> = Arc::new(Mutex::new(None));
        let mut canceller = None;
        let describe = |e: Box<dyn std::any::Any + Send>| -> String {
            e.downcast_ref::<String>().cloned().or_else(|| e.downcast_ref::<&str>().map(|s| s.to_string())).unwrap_or_else(|| "non-string payload (Cancel)".into())
        };
        let select = sc.mode == "select";
        if owner_co {
            let (sh2, d2) = (sh.clone(), done.clone());
            let h = unsafe {
                may::coroutine::Builder::new()
                    .name("root".into())
                    .spawn(move || {
                        struct D(Arc<AtomicBool>);
                        impl Drop for D {
                            fn drop(&mut self) {
                                self.0.store(true, SeqCst);
                            }
                        }
                        let _d = D(d2);
                        mayv::ctx().log("root.start", may::verif::current_co_id(), 1, None);
                        if select {
                            select_root(&sh2, seed)
                        } else {
                            task(sh2.clone(), seed, 0, 0, vec![])
                        }
                    })
                    .unwrap()
            };
            if cancel != "0" {
                let (sh2, d2) = (sh.clone(), done.clone());
                let root = h.coroutine().clone();
                let any = cancel == "any";
                let dt = DURS[(ctx.rand() % DURS.len() as u64) as usize] + [0u64, 0, 300_000, 1_000_000][(ctx.rand() % 4) as usize];
                let spins = ctx.rand() % 60;
                let pick = ctx.rand();
                canceller = Some(ctx.spawn("canceller", move || {
                    let c = mayv::ctx();
                    if dt > 0 {
                        c.sleep_ns(dt);
                    }
                    for _ in 0..spins {
                        c.point();
                    }
                    if d2.load(SeqCst) {
                        return;
                    }
                    // targets are tasks that have announced themselves (they own a scope, or the select root)
                    let (tpath, target) = {
                        let v = sh2.owners.lock().unwrap();
                        if select {
                            (0, root.clone())
                        } else if v.is_empty() {
                            return;
                        } else if any {
                            v[(pick % v.len() as u64) as usize].clone()
                        } else {
                            v[0].clone()
                        }
                    };
                    sh2.cancelled.store(true, SeqCst);
                    c.log("cancel.call", tpath, 0, None);
                    unsafe { target.cancel() };
                    c.log("cancel.ret", 0, 0, None);
                }));
            }
            // the main thread is not a task of the model: it does not register as a waiter while the trace is recorded
            let mut polls = 0u64;
            while !h.is_done() {
                ctx.sleep_ns(250_000);
                polls += 1;
                if polls > 400_000 {
                    ctx.fail("hang: the root task never finished (100 s of virtual time)".into());
                    return;
                }
            }
            ctx.record(false);
            let r = h.join();
            *outcome.lock().unwrap() = Some(r.map_err(describe));
        } else {
            let (sh2, o2) = (sh.clone(), outcome.clone());
            let t = ctx.spawn("root", move || {
                mayv::ctx().log("root.start", 0, 0, None);
                let r = catch_unwind(AssertUnwindSafe(|| task(sh2.clone(), seed, 0, 0, vec![])));
                *o2.lock().unwrap() = Some(r.map_err(|e| e.downcast_ref::<String>().cloned().unwrap_or_else(|| "non-string payload (Cancel)".into())));
            });
            ctx.join(t);
        }
        ctx.record(false);
        if let Some(t) = canceller {
            ctx.join(t);
        }
        let out = outcome.lock().unwrap().take().expect("root outcome");
        let np = sh.panicked.load(SeqCst);
        let was_cancelled = sh.cancelled.load(SeqCst);
        match &out {
            Ok(v) => {
                if np != 0 && !select {
                    ctx.fail(format!("{np} tasks panicked but the root's join is Ok: a child's panic was not propagated to the owner"));
                }
                if *v != value_of(0) {
                    ctx.fail(format!("root returned {v}, expected {}", value_of(0)));
                }
            }
            Err(msg) => {
                if np == 0 && !was_cancelled {
                    ctx.fail(format!("root's join is Err({msg}) although nothing panicked and nothing was cancelled"));
                }
                if np == 0 && msg.contains("panic-") {
                    ctx.fail(format!("root's join reports a panic nobody raised: {msg}"));
                }
            }
        }
        println!("outcome={out:?} panicked={np} cancelled={was_cancelled} vtime={}", ctx.now());
    })
}
