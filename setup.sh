#!/bin/bash
# Build the whole framework from files on disk (offline): Coq development, extracted acceptors, harness.
set -u
cd "$(dirname "$0")"
export CARGO_NET_OFFLINE=true
mkdir -p .cache out evidence ocaml/gen ocaml/build
python3 -c "import importlib.machinery,importlib.util;l=importlib.machinery.SourceFileLoader('check','/verif/check');sp=importlib.util.spec_from_loader('check',l);m=importlib.util.module_from_spec(sp);l.exec_module(m);m.coq_makefile()"
( cd coq && timeout 7000 make -f Makefile.coq -j16 2>&1 | grep -v '^COQC\|^COQDEP\|^Closed under' | tail -40 )
rc=${PIPESTATUS[0]}
[ -f harness/Cargo.lock ] || cp /repo/Cargo.lock harness/Cargo.lock
( cd harness && cargo build --offline --bins 2>&1 | tail -5 )
python3 - <<'PY'
import json, glob, importlib.machinery, importlib.util, os
loader = importlib.machinery.SourceFileLoader("check", "/verif/check")
spec = importlib.util.spec_from_loader("check", loader); m = importlib.util.module_from_spec(spec); loader.exec_module(m)
for p in sorted(glob.glob("/verif/props/*.json")):
    for acc in json.load(open(p)).get("acceptors", []):
        print("acceptor", acc["name"], m.build_acceptor(acc))
PY
exit 0
