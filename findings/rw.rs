use may::sync::RwLock;
use std::sync::{Arc, TryLockError};
fn main() {
    let l = Arc::new(RwLock::new(0u32));
    let l2 = l.clone();
    let _ = std::thread::spawn(move || { let _g = l2.write().unwrap(); panic!("poison"); }).join();
    assert!(l.is_poisoned());
    match l.try_read() {
        Err(TryLockError::Poisoned(e)) => {
            let g = e.into_inner();
            println!("got read guard from poisoned try_read: {}", *g);
            let r = std::panic::catch_unwind(std::panic::AssertUnwindSafe(|| drop(g)));
            println!("drop guard panicked: {}", r.is_err());
        }
        _ => println!("other"),
    }
    match l.try_write() {
        Ok(_) => println!("try_write ok"),
        Err(TryLockError::Poisoned(_)) => println!("try_write acquired (poisoned)"),
        Err(TryLockError::WouldBlock) => println!("try_write WOULDBLOCK: lock leaked"),
    };
}
