use std::time::Duration;
fn main() {
    may::config().set_workers(2);
    let (tx, rx) = may::sync::mpmc::channel::<u32>();
    let (dtx, drx) = std::sync::mpsc::channel();
    for i in 0..2 { let rx = rx.clone(); let dtx = dtx.clone();
        std::thread::spawn(move || { let r = rx.recv(); dtx.send((i, r.is_err())).unwrap(); }); }
    std::thread::sleep(Duration::from_millis(50));
    drop(tx);
    let mut n = 0;
    while let Ok(v) = drx.recv_timeout(Duration::from_secs(2)) { println!("F7: receiver {:?} returned", v); n += 1; if n == 2 { break; } }
    if n < 2 { println!("F7: {} of 2 mpmc receivers HANG after last sender drop", 2 - n); }
    std::process::exit(0);
}
