use may::sync::RwLock;
use std::sync::atomic::{AtomicIsize, AtomicUsize, Ordering};
use std::sync::Arc;
use std::time::Duration;
fn main() {
    let l = Arc::new(RwLock::new(0u32));
    let l2 = l.clone();
    let _ = std::thread::spawn(move || { let _g = l2.write().unwrap(); panic!("poison"); }).join();
    let occ = Arc::new(AtomicIsize::new(0)); let viol = Arc::new(AtomicUsize::new(0));
    let mut hs = vec![];
    for _ in 0..2 { let (l, occ, viol) = (l.clone(), occ.clone(), viol.clone());
        hs.push(std::thread::spawn(move || {
            let g = match l.write() { Ok(g) => g, Err(e) => e.into_inner() };
            if occ.fetch_add(1, Ordering::SeqCst) != 0 { viol.fetch_add(1, Ordering::SeqCst); }
            std::thread::sleep(Duration::from_millis(100));
            occ.fetch_sub(1, Ordering::SeqCst);
            drop(g);
        })); }
    for h in hs { let _ = h.join(); }
    println!("F5: two writers on a poisoned lock overlapped: {}", viol.load(Ordering::SeqCst));
}
