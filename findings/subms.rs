use may::sync::mpsc::channel;
use std::time::{Duration, Instant};
fn main() {
    may::config().set_workers(2);
    let (tx, rx) = channel::<u32>();
    let (dtx, drx) = std::sync::mpsc::channel();
    let h = may::go!(move || {
        let t = Instant::now();
        let r = rx.recv_timeout(Duration::from_micros(500));
        dtx.send((r.is_err(), t.elapsed())).unwrap();
    });
    match drx.recv_timeout(Duration::from_secs(2)) {
        Ok(v) => println!("returned {:?}", v),
        Err(_) => println!("recv_timeout(500us) in coroutine did NOT return within 2s"),
    }
    drop(tx); let _ = h;
    // semaphore early timeout
    let sem = std::sync::Arc::new(may::sync::Semphore::new(0));
    let (dtx, drx) = std::sync::mpsc::channel();
    let s2 = sem.clone();
    may::go!(move || {
        let t = Instant::now();
        let r = s2.wait_timeout(Duration::from_micros(1900));
        dtx.send((r, t.elapsed())).unwrap();
    });
    println!("sem.wait_timeout(1.9ms) in coroutine -> {:?}", drx.recv_timeout(Duration::from_secs(2)));
}
