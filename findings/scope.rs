use std::sync::atomic::{AtomicBool, AtomicUsize, Ordering};
use std::sync::Arc;
use std::time::Duration;
fn main() {
    may::config().set_workers(2);
    let child_done = Arc::new(AtomicBool::new(false));
    let after_scope_child_running = Arc::new(AtomicUsize::new(0));
    let cd = child_done.clone();
    let flag = after_scope_child_running.clone();
    let owner = may::go!(move || {
        struct Frame<'a>(&'a AtomicBool, &'a AtomicUsize);
        impl Drop for Frame<'_> { fn drop(&mut self) {
            // frame is being left: was the child finished?
            if !self.0.load(Ordering::SeqCst) { self.1.store(1, Ordering::SeqCst); }
        } }
        let _f = Frame(&cd, &flag);
        may::coroutine::scope(|s| {
            may::go!(s, || {
                may::coroutine::sleep(Duration::from_millis(300));
                cd.store(true, Ordering::SeqCst);
            });
        });
    });
    std::thread::sleep(Duration::from_millis(50));
    unsafe { owner.coroutine().cancel() };
    let r = owner.join();
    println!("owner join is_err={}", r.is_err());
    println!("scope frame left while child still running: {}", after_scope_child_running.load(Ordering::SeqCst) == 1);
    std::thread::sleep(Duration::from_millis(400));
}
