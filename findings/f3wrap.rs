use std::time::{Duration, Instant};
fn main() {
    may::config().set_workers(2);
    // 2^64 ms + 5 ms: as_millis() = 18446744073709551621, `as usize` wraps to 5
    let d = Duration::new(18_446_744_073_709_551, 616_000_000) + Duration::from_millis(5);
    println!("asked for {:?} (as_millis = {})", d, d.as_millis());
    let sem = std::sync::Arc::new(may::sync::Semphore::new(0));
    let (dtx, drx) = std::sync::mpsc::channel();
    let s2 = sem.clone();
    may::go!(move || {
        let t = Instant::now();
        let r = s2.wait_timeout(d);
        dtx.send((r, t.elapsed())).unwrap();
    });
    println!("sem.wait_timeout(2^64 ms + 5 ms) in coroutine -> {:?}", drx.recv_timeout(Duration::from_secs(2)));
}
