use may::sync::{Condvar, Mutex};
use std::sync::atomic::{AtomicIsize, AtomicUsize, Ordering};
use std::sync::Arc;
use std::time::Duration;
fn main() {
    may::config().set_workers(2);
    let pair = Arc::new((Mutex::new(false), Condvar::new()));
    let occ = Arc::new(AtomicIsize::new(0));
    let viol = Arc::new(AtomicUsize::new(0));
    // A: coroutine waits on condvar
    let (p, o, v) = (pair.clone(), occ.clone(), viol.clone());
    let a = may::go!(move || {
        let (m, cv) = &*p;
        let mut g = m.lock().unwrap();
        while !*g { g = cv.wait(g).unwrap(); }
        // critical section
        if o.fetch_add(1, Ordering::SeqCst) != 0 { v.fetch_add(1, Ordering::SeqCst); }
        std::thread::sleep(Duration::from_millis(100));
        o.fetch_sub(1, Ordering::SeqCst);
        drop(g);
    });
    std::thread::sleep(Duration::from_millis(50));
    // H: holder thread
    let (p, o, v) = (pair.clone(), occ.clone(), viol.clone());
    let h = std::thread::spawn(move || {
        let (m, cv) = &*p;
        let mut g = m.lock().unwrap();
        if o.fetch_add(1, Ordering::SeqCst) != 0 { v.fetch_add(1, Ordering::SeqCst); }
        *g = true;
        cv.notify_one();
        std::thread::sleep(Duration::from_millis(200));
        o.fetch_sub(1, Ordering::SeqCst);
        drop(g);
    });
    std::thread::sleep(Duration::from_millis(50));
    // cancel A while it is parked re-acquiring the mutex inside Condvar::wait
    unsafe { a.coroutine().cancel() };
    std::thread::sleep(Duration::from_millis(20));
    // B: another locker queued behind A
    let (p, o, v) = (pair.clone(), occ.clone(), viol.clone());
    let b = std::thread::spawn(move || {
        let (m, _) = &*p;
        let g = m.lock().unwrap();
        if o.fetch_add(1, Ordering::SeqCst) != 0 { v.fetch_add(1, Ordering::SeqCst); }
        std::thread::sleep(Duration::from_millis(100));
        o.fetch_sub(1, Ordering::SeqCst);
        drop(g);
    });
    h.join().unwrap(); b.join().unwrap();
    println!("A join: is_err={}", a.join().is_err());
    println!("mutual exclusion violations: {}", viol.load(Ordering::SeqCst));
}
