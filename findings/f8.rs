use std::time::{Duration, Instant};
fn main() {
    may::config().set_workers(2);
    let sem = std::sync::Arc::new(may::sync::Semphore::new(0));
    let (dtx, drx) = std::sync::mpsc::channel();
    let s2 = sem.clone();
    may::go!(move || { let t = Instant::now(); let r = s2.wait_timeout(Duration::from_millis(20)); dtx.send((r, t.elapsed())).unwrap(); });
    match drx.recv_timeout(Duration::from_secs(2)) {
        Ok(v) => println!("F8: wait_timeout(20ms) returned {:?}", v),
        Err(_) => println!("F8: wait_timeout(20ms) NEVER returned (timer fired before the coroutine was published)"),
    }
}
