use std::time::Duration;
fn main() {
    let workers: usize = std::env::args().nth(1).map(|s| s.parse().unwrap()).unwrap_or(1);
    may::config().set_workers(workers);
    let (dtx, drx) = std::sync::mpsc::channel();
    let owner = may::go!(move || {
        let _id = may::select!(
            _ = may::coroutine::sleep(Duration::from_millis(500)) => {},
            _ = may::coroutine::sleep(Duration::from_millis(600)) => {}
        );
        dtx.send(()).ok();
    });
    std::thread::sleep(Duration::from_millis(50));
    unsafe { owner.coroutine().cancel() };
    let t = std::time::Instant::now();
    // join from a plain thread with a watchdog
    let (jtx, jrx) = std::sync::mpsc::channel();
    std::thread::spawn(move || { let r = owner.join(); jtx.send(r.is_err()).ok(); });
    match jrx.recv_timeout(Duration::from_secs(3)) {
        Ok(e) => println!("workers={workers}: owner joined after {:?}, is_err={e}", t.elapsed()),
        Err(_) => println!("workers={workers}: cancelled select! owner did NOT finish within 3s (livelock)"),
    }
    let _ = drx;
    std::process::exit(0);
}
