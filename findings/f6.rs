use std::time::Duration;
fn main() {
    may::config().set_workers(2);
    let (tx, rx) = may::sync::spsc::channel::<u32>();
    let (dtx, drx) = std::sync::mpsc::channel();
    may::go!(move || { let r = rx.recv(); dtx.send(r.is_err()).unwrap(); });
    std::thread::sleep(Duration::from_millis(50)); // receiver is inside the injected 200ms window
    drop(tx);
    match drx.recv_timeout(Duration::from_secs(2)) {
        Ok(v) => println!("F6: recv returned, disconnected={v}"),
        Err(_) => println!("F6: spsc coroutine receiver HANGS after sender drop"),
    }
}
