#!/usr/bin/env python3
"""Site audit: re-extract, from the CURRENT sources under /repo, every hooked shared-memory
operation site (atomic method calls, AtomicOption calls, verif::point markers), with the
enclosing function, the receiver expression, the operation, its Ordering arguments and its
ordinal among equal (receiver, op) pairs of that function.

Used for two things on every check run:
  * resolving the `file:line:col` that `Location::caller()` reports at run time into a symbolic
    site name that survives line shifts:  <file>|<fn>|<recv>|<op>|<ordinal>
  * the static comparison of each modelled function's ordered list of shared operations
    (with orderings) against the table the model was written from (coq/*/sites.json).
"""
import json, os, re, sys

OPS = ["load", "store", "swap", "compare_exchange_weak", "compare_exchange", "fetch_add", "fetch_sub",
       "fetch_or", "fetch_and", "take", "clear", "unsync_load", "push", "pop"]
QUEUE_RECV = re.compile(r"(to_wake|queue|ev_queue)$")
OP_RE = re.compile(r"\.\s*(" + "|".join(OPS) + r")\s*\(")
POINT_RE = re.compile(r"(crate::verif::point|may_queue::verif::point)\s*\(\s*\"([a-z_.]+)\"")
FN_RE = re.compile(r"\bfn\s+([A-Za-z_][A-Za-z0-9_]*)")
IMPL_RE = re.compile(r"^\s*(?:unsafe\s+)?impl(?:<[^{]*?>)?\s+(?:([A-Za-z_][A-Za-z0-9_:]*)(?:<[^{]*?>)?\s+for\s+)?([A-Za-z_][A-Za-z0-9_]*)")
ORD_RE = re.compile(r"Ordering::(Relaxed|Acquire|Release|AcqRel|SeqCst)")


def strip_comments(src):
    """replace comments and string/char literal contents by spaces, keeping offsets"""
    out = list(src)
    i, n = 0, len(src)
    while i < n:
        c = src[i]
        if src.startswith("//", i):
            j = src.find("\n", i)
            j = n if j < 0 else j
            for k in range(i, j):
                out[k] = " "
            i = j
        elif src.startswith("/*", i):
            depth, j = 1, i + 2
            while j < n and depth:
                if src.startswith("/*", j):
                    depth += 1; j += 2
                elif src.startswith("*/", j):
                    depth -= 1; j += 2
                else:
                    j += 1
            for k in range(i, j):
                if out[k] != "\n":
                    out[k] = " "
            i = j
        elif c == '"':
            j = i + 1
            while j < n and src[j] != '"':
                j += 2 if src[j] == "\\" else 1
            # keep short string literals (point kinds), blank the rest
            if j - i > 24:
                for k in range(i + 1, j):
                    if out[k] != "\n":
                        out[k] = " "
            i = j + 1
        elif c == "'" and i + 2 < n and (src[i + 2] == "'" or (src[i + 1] == "\\" and src.find("'", i + 2) - i <= 4)):
            j = src.find("'", i + 2)
            i = j + 1
        else:
            i += 1
    return "".join(out)


def receiver(text, pos):
    """expression text ending right before the '.' at pos (balanced, back to a delimiter)"""
    j = pos - 1
    depth = 0
    while j >= 0:
        c = text[j]
        if c in ")]":
            depth += 1
        elif c in "([":
            if depth == 0:
                break
            depth -= 1
        elif depth == 0 and c in ",;{}=!&|<>+-*/%":
            # allow '&' / '*' prefixes to be cut, '->' never occurs here
            break
        elif depth == 0 and c in " \n\t":
            # whitespace ends the receiver unless it only breaks a method chain over lines ("x\n    .y")
            k = j + 1
            while k < pos and text[k] in " \n\t":
                k += 1
            if k < pos and text[k] == ".":
                while j >= 0 and text[j] in " \n\t":
                    j -= 1
                continue
            break
        j -= 1
    r = text[j + 1:pos]
    r = re.sub(r"\s+", "", r)
    return r.lstrip("&*!(")


def audit_file(path, rel, calls=(), ctl=False):
    src = open(path).read()
    txt = strip_comments(src)
    # line start offsets
    starts = [0]
    for m in re.finditer("\n", txt):
        starts.append(m.end())
    import bisect

    def linecol(off):
        ln = bisect.bisect_right(starts, off) - 1
        return ln + 1, off - starts[ln] + 1

    # context tracking: stack of (kind, name, depth_at_open)
    events = []  # (offset, kind, data)
    for m in FN_RE.finditer(txt):
        events.append((m.start(), "fn", m.group(1)))
    for m in re.finditer(r"^\s*(?:unsafe\s+)?impl\b[^{;]*\{", txt, re.M):
        head = m.group(0)
        mm = IMPL_RE.match(head)
        name = mm.group(3 - 1) if mm else "?"
        if mm:
            name = mm.group(2)
        events.append((m.end() - 1, "impl", name))
    for m in re.finditer(r"^\s*(?:pub\s+)?mod\s+([a-z_]+)\s*\{", txt, re.M):
        events.append((m.end() - 1, "mod", m.group(1)))
    for m in OP_RE.finditer(txt):
        events.append((m.start(1), "op", (m.group(1), m.start())))
    for m in POINT_RE.finditer(txt):
        events.append((m.start(), "point", m.group(2)))
    if calls:
        # opt-in pseudo sites: calls of named functions / methods (static tables only: they have no run-time record)
        cre = re.compile(r"(?<![A-Za-z0-9_])(" + "|".join(re.escape(c) for c in sorted(calls)) + r")\s*\(")
        for m in cre.finditer(txt):
            pre = txt[max(0, m.start() - 3):m.start()]
            if pre.endswith("fn "):
                continue
            events.append((m.start(1), "call", m.group(1)))
    if ctl:
        # opt-in pseudo sites: the branch skeleton of a function (keywords in source order); static tables only
        for m in re.finditer(r"(?<![A-Za-z0-9_])(if|else|match|loop|while|for|return|break|continue)(?![A-Za-z0-9_])", txt):
            events.append((m.start(1), "ctl", m.group(1)))
        for m in re.finditer(r"\?(?=\s*[;.,)\]}])", txt):
            events.append((m.start(), "ctl", "try"))
    for i, c in enumerate(txt):
        if c == "{":
            events.append((i, "{", None))
        elif c == "}":
            events.append((i, "}", None))
    events.sort(key=lambda e: (e[0], 0 if e[1] in ("fn", "impl", "mod") else 1))

    depth = 0
    stack = []  # (kind, name, depth)
    pending_fn = None
    sites = []
    counts = {}
    for off, kind, data in events:
        if kind == "fn":
            pending_fn = data
        elif kind in ("impl", "mod"):
            stack.append((kind, data, depth))  # the '{' at this offset follows as its own event
        elif kind == "{":
            if pending_fn is not None:
                stack.append(("fn", pending_fn, depth))
                pending_fn = None
            depth += 1
        elif kind == "}":
            depth -= 1
            while stack and stack[-1][2] >= depth:
                stack.pop()
        elif kind in ("op", "point", "call", "ctl"):
            if any(k == "mod" and n in ("tests", "test") for k, n, _ in stack):
                continue
            fns = [n for k, n, _ in stack if k == "fn"]
            impls = [n for k, n, _ in stack if k == "impl"]
            if not fns:
                continue
            # closures / nested fns: use the outermost fn inside the innermost impl
            fn = (impls[-1] + "::" if impls else "") + fns[0]
            if kind == "op":
                op, dot = data
                end = dot
                while end > 0 and txt[end - 1].isspace():
                    end -= 1   # method chains broken over lines
                recv = receiver(txt, end)
                # orderings: scan the argument list
                j = txt.index("(", off)
                d, k = 0, j
                while k < len(txt):
                    if txt[k] == "(":
                        d += 1
                    elif txt[k] == ")":
                        d -= 1
                        if d == 0:
                            break
                    k += 1
                ords = ORD_RE.findall(txt[j:k])
                if op in ("take", "clear", "store", "load", "swap") and not ords and op not in ("take", "clear", "store"):
                    continue
                # `take`/`clear`/`store` without Ordering: only AtomicOption / AtomicDuration style receivers are hooked;
                # Option::take on plain values is not a site. Keep them; the run-time table decides which exist.
                if op in ("push", "pop"):
                    if not QUEUE_RECV.search(recv):
                        continue
                    op = "segq." + op
                opn = "cas" if op.startswith("compare_exchange") else op
            elif kind == "call":
                recv, opn, ords = "", "call." + data, []
            elif kind == "ctl":
                recv, opn, ords = "", "ctl." + data, []
            else:
                # a marker on a plain (non-atomic) shared access: the statement that follows the marker is the access
                # it stands for; its text is part of the table, so that moving the access away from its marker is seen
                k = txt.find(";", off)
                e1, e2 = txt.find(";", k + 1), txt.find("}", k + 1)
                end = min(x for x in (e1, e2, len(txt)) if x >= 0)
                nxt = txt[k + 1:end + 1] if k >= 0 else ""
                nxt = re.sub(r"#\[cfg\([^\]]*\)\]", "", nxt)
                recv, opn, ords = "", data, ["next:" + re.sub(r"\s+", "", nxt)[:80]]
            key = (fn, recv, opn)
            o = counts.get(key, 0)
            counts[key] = o + 1
            ln, col = linecol(off)
            sites.append({"file": rel, "line": ln, "col": col, "fn": fn, "recv": recv, "op": opn, "ord": o,
                          "orderings": ords, "name": f"{rel}|{fn}|{recv}|{opn}|{o}"})
    return sites


def struct_fields(path, name):
    """field names of `struct <name>` in declaration order (= drop order); None when the struct is not found.
    Used by the static tie for properties whose model assumes a destruction order (deregister before close)."""
    try:
        src = strip_comments(open(path).read())
    except OSError:
        return None
    m = re.search(r'\bstruct\s+' + re.escape(name) + r'\b[^;{(]*\{', src)
    if not m:
        return None
    depth, i = 1, m.end()
    while i < len(src) and depth:
        depth += {'{': 1, '}': -1}.get(src[i], 0)
        i += 1
    body = src[m.end():i - 1]
    out, depth, cur = [], 0, ''
    for ch in body:
        if ch in '<([{':
            depth += 1
        elif ch in '>)]}':
            depth -= 1
        if ch == ',' and depth == 0:
            out.append(cur)
            cur = ''
        else:
            cur += ch
    out.append(cur)
    names = []
    for f in out:
        f = re.sub(r'#\[[^\]]*\]', '', f)
        mm = re.match(r'\s*(?:pub(?:\([^)]*\))?\s+)?([A-Za-z_][A-Za-z0-9_]*)\s*:', f)
        if mm:
            names.append(mm.group(1))
    return names


def audit(repo="/repo", calls=(), ctl=False):
    out = []
    for sub in ("src", "may_queue/src"):
        for dp, dn, fn in os.walk(os.path.join(repo, sub)):
            if "windows" in dp:
                continue
            for f in sorted(fn):
                if f.endswith(".rs") and f not in ("kqueue.rs", "verif.rs"):
                    p = os.path.join(dp, f)
                    out += audit_file(p, os.path.relpath(p, repo), calls, ctl)
    return out


if __name__ == "__main__":
    repo = sys.argv[1] if len(sys.argv) > 1 else "/repo"
    sites = audit(repo)
    if len(sys.argv) > 2:
        json.dump(sites, open(sys.argv[2], "w"), indent=0)
    else:
        for s in sites:
            print(f'{s["file"]}:{s["line"]}:{s["col"]}\t{s["fn"]}\t{s["recv"]}\t{s["op"]}#{s["ord"]}\t{",".join(s["orderings"])}')
