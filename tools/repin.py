#!/usr/bin/env python3
"""repin.py <binding.json> <file|Impl::fn> ...   -- rewrite the pinned operation table of the named functions of a
binding from the CURRENT source of /repo (after a deliberate, reviewed change of that function: a fix: commit).
Prints the old and the new table so that the difference can be reviewed; never run by a check."""
import json, sys, os
sys.path.insert(0, os.path.dirname(os.path.abspath(__file__)))
import siteaudit as SA
b = json.load(open(sys.argv[1]))
sites = SA.audit("/repo", calls=set(b.get("pinned_calls", [])))
calls = set("call." + c for c in b.get("pinned_calls", []))
cur = {}
for s in sites:
    if s["op"].startswith("call.") and s["op"] not in calls:
        continue
    cur.setdefault(f'{s["file"]}|{s["fn"]}', []).append([s["recv"], s["op"], ",".join(s["orderings"])])
for fn in sys.argv[2:]:
    old = b["pinned"].get(fn)
    new = cur.get(fn)
    print(fn)
    print("  old:", [f"{r}.{o}" for r, o, _ in (old or [])])
    print("  new:", [f"{r}.{o}" for r, o, _ in (new or [])])
    if new is None:
        print("  NOT FOUND in the current source"); continue
    b["pinned"][fn] = new
json.dump(b, open(sys.argv[1], "w"), indent=1)
