#!/usr/bin/env python3
"""repin.py [--ctl] <binding.json> <file|Impl::fn> ...   -- rewrite the pinned operation table of the named functions of
a binding from the CURRENT source of /repo (after a deliberate, reviewed change of that function: a fix: commit).
--ctl: write the table WITH the branch skeleton (`pinned_ctl`: keywords if / else / match / loop / while / for / return /
break / continue / `?` in source order between the operations) instead of the plain operation table.
Prints the old and the new table so that the difference can be reviewed; never run by a check."""
import json, sys, os
sys.path.insert(0, os.path.dirname(os.path.abspath(__file__)))
import siteaudit as SA
args = sys.argv[1:]
ctl = args and args[0] == "--ctl"
if ctl:
    args = args[1:]
b = json.load(open(args[0]))
sites = SA.audit("/repo", calls=set(b.get("pinned_calls", [])), ctl=ctl)
calls = set("call." + c for c in b.get("pinned_calls", []))
cur = {}
for s in sites:
    if s["op"].startswith("call.") and s["op"] not in calls:
        continue
    cur.setdefault(f'{s["file"]}|{s["fn"]}', []).append([s["recv"], s["op"], ",".join(s["orderings"])])
key = "pinned_ctl" if ctl else "pinned"
b.setdefault(key, {})
for fn in args[1:]:
    old = b[key].get(fn)
    new = cur.get(fn)
    print(fn)
    print("  old:", [f"{r}.{o}" for r, o, _ in (old or [])])
    print("  new:", [f"{r}.{o}" for r, o, _ in (new or [])])
    if new is None:
        print("  NOT FOUND in the current source"); continue
    b[key][fn] = new
json.dump(b, open(args[0], "w"), indent=1)
