#!/usr/bin/env python3
"""manifest_add.py <Cxx> <technique> <level text> <level note>  -- add/replace a claimed check in MANIFEST.json"""
import json, sys
pid, tech, text, note = sys.argv[1:5]
m = json.load(open('/verif/MANIFEST.json'))
m["checks"] = [c for c in m["checks"] if c["property_id"] != pid]
m["checks"].append({
    "property_id": pid, "quick_cmd": f"./check {pid}", "thorough_cmd": f"./check {pid} --tier thorough",
    "evidence_file": f"/verif/evidence/{pid}.json", "replay_cmd_template": f"./check {pid} --replay {{path}}", "engine": "coq",
    "level_claimed": {"category": "proof", "text": text, "design_ref": f"DESIGN.md 6 {pid}, 10"},
    "level_note": note, "technique": tech})
m["checks"].sort(key=lambda c: c["property_id"])
m["not_applicable"] = [x for x in m["not_applicable"] if x["property_id"] != pid]
claimed = [c["property_id"] for c in m["checks"]]
for e in m["engines"]:
    e["serves_properties"] = claimed
json.dump(m, open('/verif/MANIFEST.json', 'w'), indent=1)
print("claimed:", claimed)
