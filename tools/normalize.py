#!/usr/bin/env python3
"""Turn raw harness traces into acceptor input.

usage: normalize.py <binding.json> <sites.json> <trace files...>   (writes the driver input to stdout)

Every raw record whose source file belongs to the model (binding["files"]) must resolve, through the
site table regenerated from the current sources, to a bound site (-> its event code) or to an ignored
site; anything else is emitted as code ffff (never accepted by a model): an unmodelled shared access.
Events are `code actor obj val` in hex; actors and objects are renumbered by first appearance."""
import json, sys, os, fnmatch


def load_sites(path):
    tab = {}
    for s in json.load(open(path)):
        tab[(s["file"], s["line"], s["col"])] = s
    return tab


def normalize(binding, sitetab, path, out, stats=None):
    files = binding["files"]
    sites = binding["sites"]
    api = binding.get("api", {})
    ignore = binding.get("ignore", [])
    actors, objs = {}, {}

    def num(d, k):
        if k not in d:
            d[k] = len(d) + 1
        return d[k]

    out.write(f"T {path}\n")
    for line in open(path):
        f = line.rstrip("\n").split(" ", 9)
        if len(f) < 9:
            continue
        tid, co, kernel, loc, kind, obj, val, b, now = f[0], f[1], f[2], f[3], f[4], f[5], f[6], f[7], f[8]
        actor_key = ("co", co) if (co != "0" and binding.get("actor_by_coroutine")) else ("t", tid)
        if loc == "-:0:0":
            if kind in api:
                a = num(actors, actor_key)
                out.write(f"{api[kind]:x} {a:x} {int(obj,16):x} {int(val):x}\n")
                if stats is not None:
                    stats[kind] = stats.get(kind, 0) + 1
            continue
        file, ln, col = loc.rsplit(":", 2)
        rel = file[len("/repo/"):] if file.startswith("/repo/") else file
        if rel not in files:
            continue
        s = sitetab.get((rel, int(ln), int(col)))
        name = s["name"] if s else f"{rel}|?|?|{kind}|{ln}:{col}"
        if s and any(fnmatch.fnmatchcase(name, pat) for pat in ignore):
            continue
        code = sites.get(name, 0xFFFF)
        a = num(actors, actor_key)
        o = num(objs, obj)
        out.write(f"{code:x} {a:x} {o:x} {int(val):x}\n")
        if stats is not None:
            stats[name] = stats.get(name, 0) + 1


def static_check(binding, sites_list, repo="/repo"):
    """compare the pinned per-function operation tables (and pinned struct field orders = drop orders) with the
    current source; returns list of differences"""
    cur = {}
    calls = set("call." + c for c in binding.get("pinned_calls", []))
    curctl = {}
    for s in sites_list:
        if s["op"].startswith("call.") and s["op"] not in calls:
            continue   # call pseudo-sites are opt-in per binding
        row = [s["recv"], s["op"], ",".join(s["orderings"])]
        curctl.setdefault(f'{s["file"]}|{s["fn"]}', []).append(row)
        if s["op"].startswith("ctl."):
            continue   # branch-skeleton pseudo-sites only count for the functions of `pinned_ctl`
        cur.setdefault(f'{s["file"]}|{s["fn"]}', []).append(row)
    diffs = []
    for fn, exp in binding.get("pinned", {}).items():
        got = cur.get(fn)
        if got != exp:
            diffs.append({"fn": fn, "expected": exp, "found": got})
    for fn, exp in binding.get("pinned_ctl", {}).items():
        got = curctl.get(fn)
        if got != exp:
            diffs.append({"fn": fn + " (operations and branch skeleton)", "expected": exp, "found": got})
    for key, exp in binding.get("pinned_structs", {}).items():
        rel, name = key.split("|")
        import siteaudit as _SA
        got = _SA.struct_fields(os.path.join(repo, rel), name)
        if got != exp:
            diffs.append({"fn": "struct " + key + " (field = drop order)", "expected": exp, "found": got})
    return diffs


if __name__ == "__main__":
    binding = json.load(open(sys.argv[1]))
    tab = load_sites(sys.argv[2])
    for p in sys.argv[3:]:
        normalize(binding, tab, p, sys.stdout)
