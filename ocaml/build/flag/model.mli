
val negb : bool -> bool

type nat =
| O
| S of nat

val fst : ('a1 * 'a2) -> 'a1

val length : 'a1 list -> nat

val app : 'a1 list -> 'a1 list -> 'a1 list

type comparison =
| Eq
| Lt
| Gt

val compOpp : comparison -> comparison

val add : nat -> nat -> nat

val eqb : bool -> bool -> bool

module Nat :
 sig
  val eqb : nat -> nat -> bool

  val eq_dec : nat -> nat -> bool
 end

val remove : ('a1 -> 'a1 -> bool) -> 'a1 -> 'a1 list -> 'a1 list

type positive =
| XI of positive
| XO of positive
| XH

type n =
| N0
| Npos of positive

type z =
| Z0
| Zpos of positive
| Zneg of positive

module Pos :
 sig
  val succ : positive -> positive

  val add : positive -> positive -> positive

  val add_carry : positive -> positive -> positive

  val pred_double : positive -> positive

  val pred_N : positive -> n

  val compare_cont : comparison -> positive -> positive -> comparison

  val compare : positive -> positive -> comparison

  val eqb : positive -> positive -> bool

  val testbit : positive -> n -> bool

  val iter_op : ('a1 -> 'a1 -> 'a1) -> positive -> 'a1 -> 'a1

  val to_nat : positive -> nat

  val of_succ_nat : nat -> positive
 end

module N :
 sig
  val testbit : n -> n -> bool
 end

module Z :
 sig
  val double : z -> z

  val succ_double : z -> z

  val pred_double : z -> z

  val pos_sub : positive -> positive -> z

  val add : z -> z -> z

  val opp : z -> z

  val sub : z -> z -> z

  val compare : z -> z -> comparison

  val ltb : z -> z -> bool

  val eqb : z -> z -> bool

  val to_nat : z -> nat

  val of_nat : nat -> z

  val odd : z -> bool

  val testbit : z -> z -> bool
 end

type pc =
| Idle
| W0
| W1
| W2
| WP
| WW
| E1
| E2
| E3
| E4
| F0
| A1
| A2
| A3
| A4
| Q0

type ctx =
| RUser
| RErr
| RPark

type rsn =
| RU
| RT

type act = { apc : pc; ab : nat; aw : nat; actx : ctx; atimed : bool;
             dep : nat; ares : bool }

type blk = { tok : bool; parked : bool; reason : rsn option; unp : bool;
             rel : bool; owner : nat }

type st = { cnt : z; q : nat list; nextb : nat; a : (nat -> act);
            bk : (nat -> blk); ufired : bool; fbound : z; infl : nat list;
            obs : (nat * bool) list }

val upd : (nat -> 'a1) -> nat -> 'a1 -> nat -> 'a1

val fresh : nat -> blk

val set_pc : act -> pc -> act

val set_res : act -> pc -> bool -> act

val ret_pc : ctx -> pc

val rm : nat -> nat list -> nat list

val nl : nat list -> z

type action =
| Wait of nat * bool
| IsFired of nat
| Fire of nat
| Step of nat
| Tmo of nat

val mk :
  z -> nat list -> nat -> (nat -> act) -> (nat -> blk) -> bool -> z -> nat
  list -> (nat * bool) list -> st

val step : z -> st -> action -> st option

val act0 : act

val init : st

type aux = { started : bool; ph : (nat -> nat); op : (nat -> nat);
             kind : (nat -> nat); ou : (nat -> z); orl : (nat -> z);
             opk : (nat -> z) }

type ast = st * aux

val aux0 : aux

val mAX : z

val m_init : ast

val pc_eqb : pc -> pc -> bool

val sgn : z -> z

val zb : z -> bool

val set_ph : aux -> nat -> nat -> aux

val set_op : aux -> nat -> nat -> aux

val set_kind : aux -> nat -> nat -> aux

val set_ou : aux -> (nat -> z) -> aux

val set_orl : aux -> (nat -> z) -> aux

val set_opk : aux -> (nat -> z) -> aux

val bind_obj : (nat -> z) -> nat -> z -> (nat -> z) option

type plan = { acts : action list; post : (st -> bool); nxt : (st -> aux) }

val steps : st -> action list -> st option

val guard : bool -> plan option -> plan option

val pcof : st -> nat -> pc

val at_pc : st -> nat -> pc -> bool

val phis : aux -> nat -> nat -> bool

val plan_ev : st -> aux -> z list -> plan option

val accept_ev : ast -> z list -> ast option

val monitors_ok : ast -> bool

val m_init0 : ast

val m_accept : ast -> z list -> ast option

val m_final : ast -> bool
