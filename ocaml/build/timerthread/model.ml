
(** val negb : bool -> bool **)

let negb = function
| true -> false
| false -> true

type nat =
| O
| S of nat

(** val fst : ('a1 * 'a2) -> 'a1 **)

let fst = function
| (x, _) -> x

(** val snd : ('a1 * 'a2) -> 'a2 **)

let snd = function
| (_, y) -> y

(** val app : 'a1 list -> 'a1 list -> 'a1 list **)

let rec app l m0 =
  match l with
  | [] -> m0
  | a0 :: l1 -> a0 :: (app l1 m0)

type comparison =
| Eq
| Lt
| Gt

(** val compOpp : comparison -> comparison **)

let compOpp = function
| Eq -> Eq
| Lt -> Gt
| Gt -> Lt

module Coq__1 = struct
 (** val add : nat -> nat -> nat **)
 let rec add n0 m0 =
   match n0 with
   | O -> m0
   | S p -> S (add p m0)
end
include Coq__1

(** val eqb : bool -> bool -> bool **)

let eqb b1 b2 =
  if b1 then b2 else if b2 then false else true

module Nat =
 struct
  (** val eqb : nat -> nat -> bool **)

  let rec eqb n0 m0 =
    match n0 with
    | O -> (match m0 with
            | O -> true
            | S _ -> false)
    | S n' -> (match m0 with
               | O -> false
               | S m' -> eqb n' m')
 end

(** val hd : 'a1 -> 'a1 list -> 'a1 **)

let hd default = function
| [] -> default
| x :: _ -> x

(** val map : ('a1 -> 'a2) -> 'a1 list -> 'a2 list **)

let rec map f = function
| [] -> []
| a0 :: t -> (f a0) :: (map f t)

(** val flat_map : ('a1 -> 'a2 list) -> 'a1 list -> 'a2 list **)

let rec flat_map f = function
| [] -> []
| x :: t -> app (f x) (flat_map f t)

(** val existsb : ('a1 -> bool) -> 'a1 list -> bool **)

let rec existsb f = function
| [] -> false
| a0 :: l0 -> (||) (f a0) (existsb f l0)

(** val forallb : ('a1 -> bool) -> 'a1 list -> bool **)

let rec forallb f = function
| [] -> true
| a0 :: l0 -> (&&) (f a0) (forallb f l0)

(** val filter : ('a1 -> bool) -> 'a1 list -> 'a1 list **)

let rec filter f = function
| [] -> []
| x :: l0 -> if f x then x :: (filter f l0) else filter f l0

type positive =
| XI of positive
| XO of positive
| XH

type n =
| N0
| Npos of positive

type z =
| Z0
| Zpos of positive
| Zneg of positive

module Pos =
 struct
  type mask =
  | IsNul
  | IsPos of positive
  | IsNeg
 end

module Coq_Pos =
 struct
  (** val succ : positive -> positive **)

  let rec succ = function
  | XI p -> XO (succ p)
  | XO p -> XI p
  | XH -> XO XH

  (** val add : positive -> positive -> positive **)

  let rec add x y =
    match x with
    | XI p ->
      (match y with
       | XI q -> XO (add_carry p q)
       | XO q -> XI (add p q)
       | XH -> XO (succ p))
    | XO p ->
      (match y with
       | XI q -> XI (add p q)
       | XO q -> XO (add p q)
       | XH -> XI p)
    | XH -> (match y with
             | XI q -> XO (succ q)
             | XO q -> XI q
             | XH -> XO XH)

  (** val add_carry : positive -> positive -> positive **)

  and add_carry x y =
    match x with
    | XI p ->
      (match y with
       | XI q -> XI (add_carry p q)
       | XO q -> XO (add_carry p q)
       | XH -> XI (succ p))
    | XO p ->
      (match y with
       | XI q -> XO (add_carry p q)
       | XO q -> XI (add p q)
       | XH -> XO (succ p))
    | XH ->
      (match y with
       | XI q -> XI (succ q)
       | XO q -> XO (succ q)
       | XH -> XI XH)

  (** val pred_double : positive -> positive **)

  let rec pred_double = function
  | XI p -> XI (XO p)
  | XO p -> XI (pred_double p)
  | XH -> XH

  type mask = Pos.mask =
  | IsNul
  | IsPos of positive
  | IsNeg

  (** val succ_double_mask : mask -> mask **)

  let succ_double_mask = function
  | IsNul -> IsPos XH
  | IsPos p -> IsPos (XI p)
  | IsNeg -> IsNeg

  (** val double_mask : mask -> mask **)

  let double_mask = function
  | IsPos p -> IsPos (XO p)
  | x0 -> x0

  (** val double_pred_mask : positive -> mask **)

  let double_pred_mask = function
  | XI p -> IsPos (XO (XO p))
  | XO p -> IsPos (XO (pred_double p))
  | XH -> IsNul

  (** val sub_mask : positive -> positive -> mask **)

  let rec sub_mask x y =
    match x with
    | XI p ->
      (match y with
       | XI q -> double_mask (sub_mask p q)
       | XO q -> succ_double_mask (sub_mask p q)
       | XH -> IsPos (XO p))
    | XO p ->
      (match y with
       | XI q -> succ_double_mask (sub_mask_carry p q)
       | XO q -> double_mask (sub_mask p q)
       | XH -> IsPos (pred_double p))
    | XH -> (match y with
             | XH -> IsNul
             | _ -> IsNeg)

  (** val sub_mask_carry : positive -> positive -> mask **)

  and sub_mask_carry x y =
    match x with
    | XI p ->
      (match y with
       | XI q -> succ_double_mask (sub_mask_carry p q)
       | XO q -> double_mask (sub_mask p q)
       | XH -> IsPos (pred_double p))
    | XO p ->
      (match y with
       | XI q -> double_mask (sub_mask_carry p q)
       | XO q -> succ_double_mask (sub_mask_carry p q)
       | XH -> double_pred_mask p)
    | XH -> IsNeg

  (** val mul : positive -> positive -> positive **)

  let rec mul x y =
    match x with
    | XI p -> add y (XO (mul p y))
    | XO p -> XO (mul p y)
    | XH -> y

  (** val compare_cont : comparison -> positive -> positive -> comparison **)

  let rec compare_cont r0 x y =
    match x with
    | XI p ->
      (match y with
       | XI q -> compare_cont r0 p q
       | XO q -> compare_cont Gt p q
       | XH -> Gt)
    | XO p ->
      (match y with
       | XI q -> compare_cont Lt p q
       | XO q -> compare_cont r0 p q
       | XH -> Gt)
    | XH -> (match y with
             | XH -> r0
             | _ -> Lt)

  (** val compare : positive -> positive -> comparison **)

  let compare =
    compare_cont Eq

  (** val eqb : positive -> positive -> bool **)

  let rec eqb p q =
    match p with
    | XI p0 -> (match q with
                | XI q0 -> eqb p0 q0
                | _ -> false)
    | XO p0 -> (match q with
                | XO q0 -> eqb p0 q0
                | _ -> false)
    | XH -> (match q with
             | XH -> true
             | _ -> false)

  (** val iter_op : ('a1 -> 'a1 -> 'a1) -> positive -> 'a1 -> 'a1 **)

  let rec iter_op op p a0 =
    match p with
    | XI p0 -> op a0 (iter_op op p0 (op a0 a0))
    | XO p0 -> iter_op op p0 (op a0 a0)
    | XH -> a0

  (** val to_nat : positive -> nat **)

  let to_nat x =
    iter_op Coq__1.add x (S O)

  (** val of_succ_nat : nat -> positive **)

  let rec of_succ_nat = function
  | O -> XH
  | S x -> succ (of_succ_nat x)
 end

module N =
 struct
  (** val add : n -> n -> n **)

  let add n0 m0 =
    match n0 with
    | N0 -> m0
    | Npos p -> (match m0 with
                 | N0 -> n0
                 | Npos q -> Npos (Coq_Pos.add p q))

  (** val sub : n -> n -> n **)

  let sub n0 m0 =
    match n0 with
    | N0 -> N0
    | Npos n' ->
      (match m0 with
       | N0 -> n0
       | Npos m' ->
         (match Coq_Pos.sub_mask n' m' with
          | Coq_Pos.IsPos p -> Npos p
          | _ -> N0))

  (** val compare : n -> n -> comparison **)

  let compare n0 m0 =
    match n0 with
    | N0 -> (match m0 with
             | N0 -> Eq
             | Npos _ -> Lt)
    | Npos n' -> (match m0 with
                  | N0 -> Gt
                  | Npos m' -> Coq_Pos.compare n' m')

  (** val eqb : n -> n -> bool **)

  let eqb n0 m0 =
    match n0 with
    | N0 -> (match m0 with
             | N0 -> true
             | Npos _ -> false)
    | Npos p -> (match m0 with
                 | N0 -> false
                 | Npos q -> Coq_Pos.eqb p q)

  (** val leb : n -> n -> bool **)

  let leb x y =
    match compare x y with
    | Gt -> false
    | _ -> true

  (** val ltb : n -> n -> bool **)

  let ltb x y =
    match compare x y with
    | Lt -> true
    | _ -> false

  (** val min : n -> n -> n **)

  let min n0 n' =
    match compare n0 n' with
    | Gt -> n'
    | _ -> n0
 end

module Z =
 struct
  (** val double : z -> z **)

  let double = function
  | Z0 -> Z0
  | Zpos p -> Zpos (XO p)
  | Zneg p -> Zneg (XO p)

  (** val succ_double : z -> z **)

  let succ_double = function
  | Z0 -> Zpos XH
  | Zpos p -> Zpos (XI p)
  | Zneg p -> Zneg (Coq_Pos.pred_double p)

  (** val pred_double : z -> z **)

  let pred_double = function
  | Z0 -> Zneg XH
  | Zpos p -> Zpos (Coq_Pos.pred_double p)
  | Zneg p -> Zneg (XI p)

  (** val pos_sub : positive -> positive -> z **)

  let rec pos_sub x y =
    match x with
    | XI p ->
      (match y with
       | XI q -> double (pos_sub p q)
       | XO q -> succ_double (pos_sub p q)
       | XH -> Zpos (XO p))
    | XO p ->
      (match y with
       | XI q -> pred_double (pos_sub p q)
       | XO q -> double (pos_sub p q)
       | XH -> Zpos (Coq_Pos.pred_double p))
    | XH ->
      (match y with
       | XI q -> Zneg (XO q)
       | XO q -> Zneg (Coq_Pos.pred_double q)
       | XH -> Z0)

  (** val add : z -> z -> z **)

  let add x y =
    match x with
    | Z0 -> y
    | Zpos x' ->
      (match y with
       | Z0 -> x
       | Zpos y' -> Zpos (Coq_Pos.add x' y')
       | Zneg y' -> pos_sub x' y')
    | Zneg x' ->
      (match y with
       | Z0 -> x
       | Zpos y' -> pos_sub y' x'
       | Zneg y' -> Zneg (Coq_Pos.add x' y'))

  (** val opp : z -> z **)

  let opp = function
  | Z0 -> Z0
  | Zpos x0 -> Zneg x0
  | Zneg x0 -> Zpos x0

  (** val sub : z -> z -> z **)

  let sub m0 n0 =
    add m0 (opp n0)

  (** val mul : z -> z -> z **)

  let mul x y =
    match x with
    | Z0 -> Z0
    | Zpos x' ->
      (match y with
       | Z0 -> Z0
       | Zpos y' -> Zpos (Coq_Pos.mul x' y')
       | Zneg y' -> Zneg (Coq_Pos.mul x' y'))
    | Zneg x' ->
      (match y with
       | Z0 -> Z0
       | Zpos y' -> Zneg (Coq_Pos.mul x' y')
       | Zneg y' -> Zpos (Coq_Pos.mul x' y'))

  (** val compare : z -> z -> comparison **)

  let compare x y =
    match x with
    | Z0 -> (match y with
             | Z0 -> Eq
             | Zpos _ -> Lt
             | Zneg _ -> Gt)
    | Zpos x' -> (match y with
                  | Zpos y' -> Coq_Pos.compare x' y'
                  | _ -> Gt)
    | Zneg x' ->
      (match y with
       | Zneg y' -> compOpp (Coq_Pos.compare x' y')
       | _ -> Lt)

  (** val leb : z -> z -> bool **)

  let leb x y =
    match compare x y with
    | Gt -> false
    | _ -> true

  (** val ltb : z -> z -> bool **)

  let ltb x y =
    match compare x y with
    | Lt -> true
    | _ -> false

  (** val eqb : z -> z -> bool **)

  let eqb x y =
    match x with
    | Z0 -> (match y with
             | Z0 -> true
             | _ -> false)
    | Zpos p -> (match y with
                 | Zpos q -> Coq_Pos.eqb p q
                 | _ -> false)
    | Zneg p -> (match y with
                 | Zneg q -> Coq_Pos.eqb p q
                 | _ -> false)

  (** val to_nat : z -> nat **)

  let to_nat = function
  | Zpos p -> Coq_Pos.to_nat p
  | _ -> O

  (** val to_N : z -> n **)

  let to_N = function
  | Zpos p -> Npos p
  | _ -> N0

  (** val of_nat : nat -> z **)

  let of_nat = function
  | O -> Z0
  | S n1 -> Zpos (Coq_Pos.of_succ_nat n1)

  (** val pos_div_eucl : positive -> z -> z * z **)

  let rec pos_div_eucl a0 b =
    match a0 with
    | XI a' ->
      let (q, r0) = pos_div_eucl a' b in
      let r' = add (mul (Zpos (XO XH)) r0) (Zpos XH) in
      if ltb r' b
      then ((mul (Zpos (XO XH)) q), r')
      else ((add (mul (Zpos (XO XH)) q) (Zpos XH)), (sub r' b))
    | XO a' ->
      let (q, r0) = pos_div_eucl a' b in
      let r' = mul (Zpos (XO XH)) r0 in
      if ltb r' b
      then ((mul (Zpos (XO XH)) q), r')
      else ((add (mul (Zpos (XO XH)) q) (Zpos XH)), (sub r' b))
    | XH -> if leb (Zpos (XO XH)) b then (Z0, (Zpos XH)) else ((Zpos XH), Z0)

  (** val div_eucl : z -> z -> z * z **)

  let div_eucl a0 b =
    match a0 with
    | Z0 -> (Z0, Z0)
    | Zpos a' ->
      (match b with
       | Z0 -> (Z0, a0)
       | Zpos _ -> pos_div_eucl a' b
       | Zneg b' ->
         let (q, r0) = pos_div_eucl a' (Zpos b') in
         (match r0 with
          | Z0 -> ((opp q), Z0)
          | _ -> ((opp (add q (Zpos XH))), (add b r0))))
    | Zneg a' ->
      (match b with
       | Z0 -> (Z0, a0)
       | Zpos _ ->
         let (q, r0) = pos_div_eucl a' b in
         (match r0 with
          | Z0 -> ((opp q), Z0)
          | _ -> ((opp (add q (Zpos XH))), (sub b r0)))
       | Zneg b' -> let (q, r0) = pos_div_eucl a' (Zpos b') in (q, (opp r0)))

  (** val div : z -> z -> z **)

  let div a0 b =
    let (q, _) = div_eucl a0 b in q

  (** val modulo : z -> z -> z **)

  let modulo a0 b =
    let (_, r0) = div_eucl a0 b in r0
 end

type entry = { eid : nat; edl : n; eeff : n; elk : bool }

type qitem = { qL : n; qid : nat; qrdy : bool; qr : nat }

type apc_t =
| AIdle
| A2
| A3
| A4
| A5
| A6
| A7
| A8

type rpc_t =
| RIdle
| R1
| R2
| R3
| R4

type tpc_t =
| D1
| D2
| D3
| DR
| DR2
| TS
| TE
| TT
| TU
| TN
| SK
| SI
| P1
| P2
| P3
| PF
| K1
| K2
| F1
| SH
| E1
| F2
| K3
| K4
| PK
| W

type adder = { apc : apc_t; aiv : n; adl : n; aid : nat; ahd : bool }

type remover = { rpc : rpc_t; rL : n; rid : nat }

type st = { now : n; lst : (n -> entry list); inuse : (n -> nat);
            heap : (n * n) list; slot : bool; tok : bool; rq : qitem list;
            tpc : tpc_t; tL : n; tnow : n; ttm : n; tcur : entry; thL : 
            n; thid : nat; aim : n option; twake : n option;
            a : (nat -> adder); r : (nat -> remover); tlag : n;
            used : nat list; fired : ((nat * n) * n) list;
            removed : nat list; handles : (n * nat) list }

(** val upd : (nat -> 'a1) -> nat -> 'a1 -> nat -> 'a1 **)

let upd f i v j =
  if Nat.eqb j i then v else f j

(** val updN : (n -> 'a1) -> n -> 'a1 -> n -> 'a1 **)

let updN f i v j =
  if N.eqb j i then v else f j

(** val wA : st -> nat -> adder -> st **)

let wA s a0 x =
  { now = s.now; lst = s.lst; inuse = s.inuse; heap = s.heap; slot = s.slot;
    tok = s.tok; rq = s.rq; tpc = s.tpc; tL = s.tL; tnow = s.tnow; ttm =
    s.ttm; tcur = s.tcur; thL = s.thL; thid = s.thid; aim = s.aim; twake =
    s.twake; a = (upd s.a a0 x); r = s.r; tlag = s.tlag; used = s.used;
    fired = s.fired; removed = s.removed; handles = s.handles }

(** val wR : st -> nat -> remover -> st **)

let wR s r0 x =
  { now = s.now; lst = s.lst; inuse = s.inuse; heap = s.heap; slot = s.slot;
    tok = s.tok; rq = s.rq; tpc = s.tpc; tL = s.tL; tnow = s.tnow; ttm =
    s.ttm; tcur = s.tcur; thL = s.thL; thid = s.thid; aim = s.aim; twake =
    s.twake; a = s.a; r = (upd s.r r0 x); tlag = s.tlag; used = s.used;
    fired = s.fired; removed = s.removed; handles = s.handles }

(** val wLst : st -> n -> entry list -> st **)

let wLst s l l0 =
  { now = s.now; lst = (updN s.lst l l0); inuse = s.inuse; heap = s.heap;
    slot = s.slot; tok = s.tok; rq = s.rq; tpc = s.tpc; tL = s.tL; tnow =
    s.tnow; ttm = s.ttm; tcur = s.tcur; thL = s.thL; thid = s.thid; aim =
    s.aim; twake = s.twake; a = s.a; r = s.r; tlag = s.tlag; used = s.used;
    fired = s.fired; removed = s.removed; handles = s.handles }

(** val wInuse : st -> n -> nat -> st **)

let wInuse s l n0 =
  { now = s.now; lst = s.lst; inuse = (updN s.inuse l n0); heap = s.heap;
    slot = s.slot; tok = s.tok; rq = s.rq; tpc = s.tpc; tL = s.tL; tnow =
    s.tnow; ttm = s.ttm; tcur = s.tcur; thL = s.thL; thid = s.thid; aim =
    s.aim; twake = s.twake; a = s.a; r = s.r; tlag = s.tlag; used = s.used;
    fired = s.fired; removed = s.removed; handles = s.handles }

(** val wHeap : st -> (n * n) list -> st **)

let wHeap s h =
  { now = s.now; lst = s.lst; inuse = s.inuse; heap = h; slot = s.slot; tok =
    s.tok; rq = s.rq; tpc = s.tpc; tL = s.tL; tnow = s.tnow; ttm = s.ttm;
    tcur = s.tcur; thL = s.thL; thid = s.thid; aim = s.aim; twake = s.twake;
    a = s.a; r = s.r; tlag = s.tlag; used = s.used; fired = s.fired;
    removed = s.removed; handles = s.handles }

(** val wSlot : st -> bool -> st **)

let wSlot s b =
  { now = s.now; lst = s.lst; inuse = s.inuse; heap = s.heap; slot = b; tok =
    s.tok; rq = s.rq; tpc = s.tpc; tL = s.tL; tnow = s.tnow; ttm = s.ttm;
    tcur = s.tcur; thL = s.thL; thid = s.thid; aim = s.aim; twake = s.twake;
    a = s.a; r = s.r; tlag = s.tlag; used = s.used; fired = s.fired;
    removed = s.removed; handles = s.handles }

(** val wTok : st -> bool -> st **)

let wTok s b =
  { now = s.now; lst = s.lst; inuse = s.inuse; heap = s.heap; slot = s.slot;
    tok = b; rq = s.rq; tpc = s.tpc; tL = s.tL; tnow = s.tnow; ttm = s.ttm;
    tcur = s.tcur; thL = s.thL; thid = s.thid; aim = s.aim; twake = s.twake;
    a = s.a; r = s.r; tlag = s.tlag; used = s.used; fired = s.fired;
    removed = s.removed; handles = s.handles }

(** val wRq : st -> qitem list -> st **)

let wRq s q =
  { now = s.now; lst = s.lst; inuse = s.inuse; heap = s.heap; slot = s.slot;
    tok = s.tok; rq = q; tpc = s.tpc; tL = s.tL; tnow = s.tnow; ttm = s.ttm;
    tcur = s.tcur; thL = s.thL; thid = s.thid; aim = s.aim; twake = s.twake;
    a = s.a; r = s.r; tlag = s.tlag; used = s.used; fired = s.fired;
    removed = s.removed; handles = s.handles }

(** val wPc : st -> tpc_t -> st **)

let wPc s p =
  { now = s.now; lst = s.lst; inuse = s.inuse; heap = s.heap; slot = s.slot;
    tok = s.tok; rq = s.rq; tpc = p; tL = s.tL; tnow = s.tnow; ttm = s.ttm;
    tcur = s.tcur; thL = s.thL; thid = s.thid; aim = s.aim; twake = s.twake;
    a = s.a; r = s.r; tlag = s.tlag; used = s.used; fired = s.fired;
    removed = s.removed; handles = s.handles }

(** val wTL : st -> n -> st **)

let wTL s l =
  { now = s.now; lst = s.lst; inuse = s.inuse; heap = s.heap; slot = s.slot;
    tok = s.tok; rq = s.rq; tpc = s.tpc; tL = l; tnow = s.tnow; ttm = s.ttm;
    tcur = s.tcur; thL = s.thL; thid = s.thid; aim = s.aim; twake = s.twake;
    a = s.a; r = s.r; tlag = s.tlag; used = s.used; fired = s.fired;
    removed = s.removed; handles = s.handles }

(** val wTnow : st -> n -> st **)

let wTnow s t =
  { now = s.now; lst = s.lst; inuse = s.inuse; heap = s.heap; slot = s.slot;
    tok = s.tok; rq = s.rq; tpc = s.tpc; tL = s.tL; tnow = t; ttm = s.ttm;
    tcur = s.tcur; thL = s.thL; thid = s.thid; aim = s.aim; twake = s.twake;
    a = s.a; r = s.r; tlag = s.tlag; used = s.used; fired = s.fired;
    removed = s.removed; handles = s.handles }

(** val wTtm : st -> n -> st **)

let wTtm s t =
  { now = s.now; lst = s.lst; inuse = s.inuse; heap = s.heap; slot = s.slot;
    tok = s.tok; rq = s.rq; tpc = s.tpc; tL = s.tL; tnow = s.tnow; ttm = t;
    tcur = s.tcur; thL = s.thL; thid = s.thid; aim = s.aim; twake = s.twake;
    a = s.a; r = s.r; tlag = s.tlag; used = s.used; fired = s.fired;
    removed = s.removed; handles = s.handles }

(** val wTcur : st -> entry -> st **)

let wTcur s e =
  { now = s.now; lst = s.lst; inuse = s.inuse; heap = s.heap; slot = s.slot;
    tok = s.tok; rq = s.rq; tpc = s.tpc; tL = s.tL; tnow = s.tnow; ttm =
    s.ttm; tcur = e; thL = s.thL; thid = s.thid; aim = s.aim; twake =
    s.twake; a = s.a; r = s.r; tlag = s.tlag; used = s.used; fired = s.fired;
    removed = s.removed; handles = s.handles }

(** val wTh : st -> n -> nat -> st **)

let wTh s l i =
  { now = s.now; lst = s.lst; inuse = s.inuse; heap = s.heap; slot = s.slot;
    tok = s.tok; rq = s.rq; tpc = s.tpc; tL = s.tL; tnow = s.tnow; ttm =
    s.ttm; tcur = s.tcur; thL = l; thid = i; aim = s.aim; twake = s.twake;
    a = s.a; r = s.r; tlag = s.tlag; used = s.used; fired = s.fired;
    removed = s.removed; handles = s.handles }

(** val wAim : st -> n option -> st **)

let wAim s a0 =
  { now = s.now; lst = s.lst; inuse = s.inuse; heap = s.heap; slot = s.slot;
    tok = s.tok; rq = s.rq; tpc = s.tpc; tL = s.tL; tnow = s.tnow; ttm =
    s.ttm; tcur = s.tcur; thL = s.thL; thid = s.thid; aim = a0; twake =
    s.twake; a = s.a; r = s.r; tlag = s.tlag; used = s.used; fired = s.fired;
    removed = s.removed; handles = s.handles }

(** val wWake : st -> n option -> n -> st **)

let wWake s w g =
  { now = s.now; lst = s.lst; inuse = s.inuse; heap = s.heap; slot = s.slot;
    tok = s.tok; rq = s.rq; tpc = s.tpc; tL = s.tL; tnow = s.tnow; ttm =
    s.ttm; tcur = s.tcur; thL = s.thL; thid = s.thid; aim = s.aim; twake = w;
    a = s.a; r = s.r; tlag = g; used = s.used; fired = s.fired; removed =
    s.removed; handles = s.handles }

(** val wNow : st -> n -> st **)

let wNow s t =
  { now = t; lst = s.lst; inuse = s.inuse; heap = s.heap; slot = s.slot;
    tok = s.tok; rq = s.rq; tpc = s.tpc; tL = s.tL; tnow = s.tnow; ttm =
    s.ttm; tcur = s.tcur; thL = s.thL; thid = s.thid; aim = s.aim; twake =
    s.twake; a = s.a; r = s.r; tlag = s.tlag; used = s.used; fired = s.fired;
    removed = s.removed; handles = s.handles }

(** val wUsed : st -> nat list -> st **)

let wUsed s u =
  { now = s.now; lst = s.lst; inuse = s.inuse; heap = s.heap; slot = s.slot;
    tok = s.tok; rq = s.rq; tpc = s.tpc; tL = s.tL; tnow = s.tnow; ttm =
    s.ttm; tcur = s.tcur; thL = s.thL; thid = s.thid; aim = s.aim; twake =
    s.twake; a = s.a; r = s.r; tlag = s.tlag; used = u; fired = s.fired;
    removed = s.removed; handles = s.handles }

(** val wFired : st -> ((nat * n) * n) list -> st **)

let wFired s f =
  { now = s.now; lst = s.lst; inuse = s.inuse; heap = s.heap; slot = s.slot;
    tok = s.tok; rq = s.rq; tpc = s.tpc; tL = s.tL; tnow = s.tnow; ttm =
    s.ttm; tcur = s.tcur; thL = s.thL; thid = s.thid; aim = s.aim; twake =
    s.twake; a = s.a; r = s.r; tlag = s.tlag; used = s.used; fired = f;
    removed = s.removed; handles = s.handles }

(** val wRemoved : st -> nat list -> st **)

let wRemoved s x =
  { now = s.now; lst = s.lst; inuse = s.inuse; heap = s.heap; slot = s.slot;
    tok = s.tok; rq = s.rq; tpc = s.tpc; tL = s.tL; tnow = s.tnow; ttm =
    s.ttm; tcur = s.tcur; thL = s.thL; thid = s.thid; aim = s.aim; twake =
    s.twake; a = s.a; r = s.r; tlag = s.tlag; used = s.used; fired = s.fired;
    removed = x; handles = s.handles }

(** val wHandles : st -> (n * nat) list -> st **)

let wHandles s x =
  { now = s.now; lst = s.lst; inuse = s.inuse; heap = s.heap; slot = s.slot;
    tok = s.tok; rq = s.rq; tpc = s.tpc; tL = s.tL; tnow = s.tnow; ttm =
    s.ttm; tcur = s.tcur; thL = s.thL; thid = s.thid; aim = s.aim; twake =
    s.twake; a = s.a; r = s.r; tlag = s.tlag; used = s.used; fired = s.fired;
    removed = s.removed; handles = x }

(** val set_apc : adder -> apc_t -> adder **)

let set_apc x p =
  { apc = p; aiv = x.aiv; adl = x.adl; aid = x.aid; ahd = x.ahd }

(** val set_ahd : adder -> apc_t -> bool -> adder **)

let set_ahd x p b =
  { apc = p; aiv = x.aiv; adl = x.adl; aid = x.aid; ahd = b }

(** val set_rpc : remover -> rpc_t -> remover **)

let set_rpc x p =
  { rpc = p; rL = x.rL; rid = x.rid }

(** val e0 : entry **)

let e0 =
  { eid = O; edl = N0; eeff = N0; elk = false }

(** val is_first : nat -> entry list -> bool **)

let is_first i = function
| [] -> false
| e :: _ -> Nat.eqb e.eid i

(** val link : nat -> entry list -> entry list **)

let link i l =
  map (fun e ->
    if Nat.eqb e.eid i
    then { eid = e.eid; edl = e.edl; eeff = e.eeff; elk = true }
    else e) l

(** val del_id : nat -> entry list -> entry list **)

let del_id i l =
  filter (fun e -> negb (Nat.eqb e.eid i)) l

(** val removable : nat -> entry list -> bool **)

let rec removable i = function
| [] -> false
| e :: r0 ->
  (match r0 with
   | [] -> false
   | e' :: _ -> if Nat.eqb e.eid i then e'.elk else removable i r0)

(** val has_id : nat -> entry list -> bool **)

let has_id i l =
  existsb (fun e -> Nat.eqb e.eid i) l

(** val hfind : n -> (n * n) list -> n option **)

let rec hfind c = function
| [] -> None
| p :: r0 -> let (t, l) = p in if N.eqb l c then Some t else hfind c r0

(** val hdel : n -> (n * n) list -> (n * n) list **)

let rec hdel c = function
| [] -> []
| p :: r0 -> let (t, l) = p in if N.eqb l c then r0 else (t, l) :: (hdel c r0)

(** val hmin : (n * n) list -> n option **)

let rec hmin = function
| [] -> None
| p :: r0 ->
  let (t, _) = p in
  (match hmin r0 with
   | Some m0 -> Some (N.min t m0)
   | None -> Some t)

(** val none_due : n -> (n * n) list -> bool **)

let none_due t h =
  forallb (fun x -> N.ltb t (fst x)) h

(** val is_min : n -> (n * n) list -> bool **)

let is_min t h =
  forallb (fun x -> N.leb t (fst x)) h

(** val set_ready : nat -> qitem list -> qitem list **)

let set_ready r0 q =
  map (fun x ->
    if Nat.eqb x.qr r0
    then { qL = x.qL; qid = x.qid; qrdy = true; qr = x.qr }
    else x) q

(** val remove_handle : n -> nat -> (n * nat) list -> (n * nat) list **)

let rec remove_handle l i = function
| [] -> []
| p :: r0 ->
  let (l', i') = p in
  if (&&) (N.eqb l' l) (Nat.eqb i' i)
  then r0
  else (l', i') :: (remove_handle l i r0)

(** val has_handle : n -> nat -> (n * nat) list -> bool **)

let has_handle l i l0 =
  existsb (fun x -> (&&) (N.eqb (fst x) l) (Nat.eqb (snd x) i)) l0

(** val mem_nat : nat -> nat list -> bool **)

let mem_nat i l =
  existsb (Nat.eqb i) l

type action =
| Tick of n
| Add of nat * n * nat
| Del of nat * n * nat
| AStep of nat
| RStep of nat
| TStep of n
| TClock of n

(** val astep : st -> nat -> st option **)

let astep s a0 =
  let x = s.a a0 in
  (match x.apc with
   | AIdle -> None
   | A2 ->
     Some
       (wA
         (wLst s x.aiv
           (app (s.lst x.aiv) ({ eid = x.aid; edl = x.adl; eeff =
             (N.add s.now x.aiv); elk = false } :: []))) a0 (set_apc x A3))
   | A3 -> Some (wA s a0 (set_ahd x A4 (is_first x.aid (s.lst x.aiv))))
   | A4 ->
     let s1 = wLst s x.aiv (link x.aid (s.lst x.aiv)) in
     if x.ahd
     then Some (wA s1 a0 (set_apc x A5))
     else Some
            (wHandles (wA s1 a0 (set_apc x AIdle)) ((x.aiv,
              x.aid) :: s.handles))
   | A5 ->
     let old = s.inuse x.aiv in
     Some
     (wA (wInuse s x.aiv (S old)) a0
       (set_apc x (match old with
                   | O -> A6
                   | S _ -> A7)))
   | A6 -> Some (wA (wHeap s ((x.adl, x.aiv) :: s.heap)) a0 (set_apc x A7))
   | A7 ->
     if s.slot
     then Some (wA (wSlot s false) a0 (set_apc x A8))
     else Some
            (wHandles (wA s a0 (set_apc x AIdle)) ((x.aiv,
              x.aid) :: s.handles))
   | A8 ->
     Some
       (wHandles (wA (wTok s true) a0 (set_apc x AIdle)) ((x.aiv,
         x.aid) :: s.handles)))

(** val rstep : st -> nat -> st option **)

let rstep s r0 =
  let x = s.r r0 in
  (match x.rpc with
   | RIdle -> None
   | R1 ->
     Some
       (wR
         (wRq s
           (app s.rq ({ qL = x.rL; qid = x.rid; qrdy = false; qr =
             r0 } :: []))) r0 (set_rpc x R2))
   | R2 -> Some (wR (wRq s (set_ready r0 s.rq)) r0 (set_rpc x R3))
   | R3 ->
     if s.slot
     then Some (wR (wSlot s false) r0 (set_rpc x R4))
     else Some (wR s r0 (set_rpc x RIdle))
   | R4 -> Some (wR (wTok s true) r0 (set_rpc x RIdle)))

(** val after_drain : bool -> tpc_t **)

let after_drain = function
| true -> TN
| false -> TS

(** val after_recheck : bool -> tpc_t **)

let after_recheck = function
| true -> PK
| false -> TN

(** val after_sched : bool -> tpc_t **)

let after_sched = function
| true -> TS
| false -> PK

(** val pop_rq : st -> st option **)

let pop_rq s =
  match s.rq with
  | [] -> None
  | x :: q ->
    if x.qrdy then Some (wPc (wTh (wRq s q) x.qL x.qid) DR) else None

(** val tstep : bool -> st -> n -> st option **)

let tstep mut s c =
  match s.tpc with
  | D1 -> (match pop_rq s with
           | Some s' -> Some s'
           | None -> Some (wPc s D2))
  | D2 ->
    (match s.rq with
     | [] -> Some (wPc s (after_drain mut))
     | _ :: _ -> Some (wPc s D3))
  | D3 -> (match pop_rq s with
           | Some s' -> Some s'
           | None -> Some s)
  | DR ->
    if removable s.thid (s.lst s.thL)
    then Some (wPc s DR2)
    else Some (wPc s D1)
  | DR2 ->
    Some
      (wPc
        (wRemoved (wLst s s.thL (del_id s.thid (s.lst s.thL)))
          (s.thid :: s.removed)) D1)
  | TS -> Some (wPc (wSlot s true) TE)
  | TE ->
    (match s.rq with
     | [] -> Some (wPc s (after_recheck mut))
     | _ :: _ -> Some (wPc s TT))
  | TT ->
    if s.slot
    then Some (wPc (wSlot s false) TU)
    else Some (wPc s (after_recheck mut))
  | TU -> Some (wPc (wTok s true) (after_recheck mut))
  | TN -> Some (wPc (wTnow s s.now) SK)
  | SK ->
    if none_due s.tnow s.heap
    then Some (wPc (wAim s (hmin s.heap)) (after_sched mut))
    else (match hfind c s.heap with
          | Some t ->
            if (&&) (N.leb t s.tnow) (is_min t s.heap)
            then Some (wPc (wTL (wHeap s (hdel c s.heap)) c) SI)
            else None
          | None -> None)
  | SI -> Some (wPc (wInuse s s.tL O) P1)
  | P1 ->
    (match s.lst s.tL with
     | [] -> Some (wPc s K1)
     | _ :: _ -> Some (wPc s P2))
  | P2 ->
    (match s.lst s.tL with
     | [] -> Some s
     | e :: _ ->
       if e.elk
       then if N.leb e.edl s.tnow then Some (wPc s P3) else Some (wPc s K1)
       else Some s)
  | P3 ->
    (match s.lst s.tL with
     | [] -> None
     | e :: l -> Some (wPc (wTcur (wLst s s.tL l) e) PF))
  | PF ->
    Some (wPc (wFired s (((s.tcur.eid, s.tcur.edl), s.now) :: s.fired)) P1)
  | K1 ->
    (match s.lst s.tL with
     | [] -> Some (wPc s E1)
     | _ :: _ -> Some (wPc s K2))
  | K2 ->
    (match s.lst s.tL with
     | [] -> Some s
     | e :: _ -> if e.elk then Some (wPc (wTtm s e.edl) F1) else Some s)
  | F1 ->
    let old = s.inuse s.tL in
    Some (wPc (wInuse s s.tL (S old)) (match old with
                                       | O -> SH
                                       | S _ -> SK))
  | SH -> Some (wPc (wHeap s ((s.ttm, s.tL) :: s.heap)) SK)
  | E1 ->
    (match s.lst s.tL with
     | [] -> Some (wPc s SK)
     | _ :: _ -> Some (wPc s F2))
  | F2 ->
    let old = s.inuse s.tL in
    Some (wPc (wInuse s s.tL (S old)) (match old with
                                       | O -> K3
                                       | S _ -> SK))
  | K3 -> Some (wPc s K4)
  | K4 ->
    (match s.lst s.tL with
     | [] -> Some s
     | e :: _ -> if e.elk then Some (wPc (wTtm s e.edl) SH) else Some s)
  | PK ->
    if s.tok
    then Some (wPc (wTok s false) D1)
    else Some
           (wPc
             (wWake s
               (match s.aim with
                | Some t -> Some (N.add s.now (N.sub t s.tnow))
                | None -> None) (N.sub s.now s.tnow)) W)
  | W ->
    if s.tok
    then Some (wPc (wTok s false) D1)
    else (match s.twake with
          | Some t -> if N.leb t s.now then Some (wPc s D1) else None
          | None -> None)

(** val step : bool -> st -> action -> st option **)

let step mut s = function
| Tick d -> if N.eqb d N0 then None else Some (wNow s (N.add s.now d))
| Add (a0, iv, i) ->
  (match (s.a a0).apc with
   | AIdle ->
     if mem_nat i s.used
     then None
     else Some
            (wUsed
              (wA s a0 { apc = A2; aiv = iv; adl = (N.add s.now iv); aid = i;
                ahd = false }) (i :: s.used))
   | _ -> None)
| Del (r0, l, i) ->
  (match (s.r r0).rpc with
   | RIdle ->
     if has_handle l i s.handles
     then Some
            (wHandles (wR s r0 { rpc = R1; rL = l; rid = i })
              (remove_handle l i s.handles))
     else None
   | _ -> None)
| AStep a0 -> astep s a0
| RStep r0 -> rstep s r0
| TStep c -> tstep mut s c
| TClock v ->
  (match s.tpc with
   | SK ->
     if (&&) (N.leb s.tnow v) (N.leb v s.now) then Some (wTnow s v) else None
   | P2 ->
     if (&&) (N.leb s.tnow v) (N.leb v s.now) then Some (wTnow s v) else None
   | _ -> None)

(** val init : st **)

let init =
  { now = N0; lst = (fun _ -> []); inuse = (fun _ -> O); heap = []; slot =
    false; tok = false; rq = []; tpc = D1; tL = N0; tnow = N0; ttm = N0;
    tcur = e0; thL = N0; thid = O; aim = None; twake = None; a = (fun _ ->
    { apc = AIdle; aiv = N0; adl = N0; aid = O; ahd = false }); r = (fun _ ->
    { rpc = RIdle; rL = N0; rid = O }); tlag = N0; used = []; fired = [];
    removed = []; handles = [] }

(** val tpc_t_eq_dec : tpc_t -> tpc_t -> bool **)

let tpc_t_eq_dec x y =
  match x with
  | D1 -> (match y with
           | D1 -> true
           | _ -> false)
  | D2 -> (match y with
           | D2 -> true
           | _ -> false)
  | D3 -> (match y with
           | D3 -> true
           | _ -> false)
  | DR -> (match y with
           | DR -> true
           | _ -> false)
  | DR2 -> (match y with
            | DR2 -> true
            | _ -> false)
  | TS -> (match y with
           | TS -> true
           | _ -> false)
  | TE -> (match y with
           | TE -> true
           | _ -> false)
  | TT -> (match y with
           | TT -> true
           | _ -> false)
  | TU -> (match y with
           | TU -> true
           | _ -> false)
  | TN -> (match y with
           | TN -> true
           | _ -> false)
  | SK -> (match y with
           | SK -> true
           | _ -> false)
  | SI -> (match y with
           | SI -> true
           | _ -> false)
  | P1 -> (match y with
           | P1 -> true
           | _ -> false)
  | P2 -> (match y with
           | P2 -> true
           | _ -> false)
  | P3 -> (match y with
           | P3 -> true
           | _ -> false)
  | PF -> (match y with
           | PF -> true
           | _ -> false)
  | K1 -> (match y with
           | K1 -> true
           | _ -> false)
  | K2 -> (match y with
           | K2 -> true
           | _ -> false)
  | F1 -> (match y with
           | F1 -> true
           | _ -> false)
  | SH -> (match y with
           | SH -> true
           | _ -> false)
  | E1 -> (match y with
           | E1 -> true
           | _ -> false)
  | F2 -> (match y with
           | F2 -> true
           | _ -> false)
  | K3 -> (match y with
           | K3 -> true
           | _ -> false)
  | K4 -> (match y with
           | K4 -> true
           | _ -> false)
  | PK -> (match y with
           | PK -> true
           | _ -> false)
  | W -> (match y with
          | W -> true
          | _ -> false)

(** val apc_t_eq_dec : apc_t -> apc_t -> bool **)

let apc_t_eq_dec x y =
  match x with
  | AIdle -> (match y with
              | AIdle -> true
              | _ -> false)
  | A2 -> (match y with
           | A2 -> true
           | _ -> false)
  | A3 -> (match y with
           | A3 -> true
           | _ -> false)
  | A4 -> (match y with
           | A4 -> true
           | _ -> false)
  | A5 -> (match y with
           | A5 -> true
           | _ -> false)
  | A6 -> (match y with
           | A6 -> true
           | _ -> false)
  | A7 -> (match y with
           | A7 -> true
           | _ -> false)
  | A8 -> (match y with
           | A8 -> true
           | _ -> false)

(** val rpc_t_eq_dec : rpc_t -> rpc_t -> bool **)

let rpc_t_eq_dec x y =
  match x with
  | RIdle -> (match y with
              | RIdle -> true
              | _ -> false)
  | R1 -> (match y with
           | R1 -> true
           | _ -> false)
  | R2 -> (match y with
           | R2 -> true
           | _ -> false)
  | R3 -> (match y with
           | R3 -> true
           | _ -> false)
  | R4 -> (match y with
           | R4 -> true
           | _ -> false)

type m = st -> st list

(** val ret : m **)

let ret s =
  s :: []

(** val fail : m **)

let fail _ =
  []

(** val doA : action -> m **)

let doA x s =
  match step false s x with
  | Some s' -> s' :: []
  | None -> []

(** val guard : (st -> bool) -> m **)

let guard b s =
  if b s then s :: [] else []

(** val bnd : m -> m -> m **)

let bnd m1 m2 s =
  flat_map m2 (m1 s)

(** val ife : (st -> bool) -> m -> m -> m **)

let ife b m1 m2 s =
  if b s then m1 s else m2 s

(** val tpc_is : tpc_t -> st -> bool **)

let tpc_is p s =
  if tpc_t_eq_dec s.tpc p then true else false

(** val apc_is : nat -> apc_t -> st -> bool **)

let apc_is a0 p s =
  if apc_t_eq_dec (s.a a0).apc p then true else false

(** val rpc_is : nat -> rpc_t -> st -> bool **)

let rpc_is r0 p s =
  if rpc_t_eq_dec (s.r r0).rpc p then true else false

(** val znz : z -> bool **)

let znz v =
  negb (Z.eqb v Z0)

(** val raise_to : n -> m **)

let raise_to d s =
  bnd (if N.ltb s.now d then doA (Tick (N.sub d s.now)) else ret) (fun s1 ->
    if N.ltb s1.tnow d then doA (TClock d) s1 else s1 :: []) s

(** val settle : m **)

let settle s =
  match hmin s.heap with
  | Some t ->
    let v = N.min s.now (N.sub t (Npos XH)) in
    if N.ltb s.tnow v then doA (TClock v) s else s :: []
  | None -> s :: []

(** val tsilent : nat -> m **)

let rec tsilent fuel s =
  match fuel with
  | O -> s :: []
  | S k ->
    (match s.tpc with
     | TU -> bnd (doA (TStep N0)) (tsilent k) s
     | TN -> bnd (doA (TStep N0)) (tsilent k) s
     | SK ->
       app
         (if none_due s.tnow s.heap
          then bnd settle (bnd (doA (TStep N0)) (tsilent k)) s
          else [])
         (flat_map (fun x ->
           bnd (raise_to (fst x)) (bnd (doA (TStep (snd x))) (tsilent k)) s)
           s.heap)
     | SH -> bnd (doA (TStep N0)) (tsilent k) s
     | PK -> bnd (doA (TStep N0)) (tsilent k) s
     | _ -> s :: [])

(** val wake_if_parked : m **)

let wake_if_parked s =
  match s.tpc with
  | W -> if s.tok then doA (TStep N0) s else s :: []
  | _ -> s :: []

(** val timeout_wake : m **)

let timeout_wake s =
  match s.tpc with
  | W ->
    (match s.twake with
     | Some t ->
       bnd (if N.ltb s.now t then doA (Tick (N.sub t s.now)) else ret)
         (doA (TStep N0)) s
     | None -> [])
  | _ -> s :: []

(** val early_timeout : m **)

let early_timeout s =
  match s.tpc with
  | W ->
    (match s.twake with
     | Some t ->
       if s.tok
       then []
       else bnd (if N.ltb s.now t then doA (Tick (N.sub t s.now)) else ret)
              (doA (TStep N0)) s
     | None -> [])
  | _ -> []

(** val unpark_by : m -> m **)

let unpark_by u s =
  app (bnd u wake_if_parked s) (bnd early_timeout u s)

(** val timeout_due : m **)

let timeout_due s =
  match s.tpc with
  | W ->
    (match s.twake with
     | Some t ->
       if (&&) (negb s.tok) (N.leb t s.now) then doA (TStep N0) s else s :: []
     | None -> s :: [])
  | _ -> s :: []

(** val dr_silent : m **)

let dr_silent s =
  match s.tpc with
  | DR -> if has_id s.thid (s.lst s.thL) then [] else doA (TStep N0) s
  | _ -> s :: []

(** val push_branch : nat list -> m **)

let rec push_branch = function
| [] -> ret
| a0 :: r0 ->
  bnd (fun s ->
    if (&&) (apc_is a0 A6 s) (negb (tpc_is SI s))
    then app (ret s) (doA (AStep a0) s)
    else s :: []) (push_branch r0)

(** val push_force : nat -> m **)

let push_force a0 s =
  if apc_is a0 A6 s then doA (AStep a0) s else s :: []

(** val clock : z -> m **)

let clock v s =
  let t = Z.to_N v in
  bnd (fun s0 ->
    if N.ltb s0.now t
    then doA (Tick (N.sub t s0.now)) s0
    else if N.eqb s0.now t then s0 :: [] else []) timeout_due s

(** val nat_of : z -> nat **)

let nat_of =
  Z.to_nat

(** val lookup : z -> (z * n) list -> n option **)

let rec lookup o = function
| [] -> None
| p :: r0 -> let (o', l0) = p in if Z.eqb o o' then Some l0 else lookup o r0

(** val rlookup : n -> (z * n) list -> z option **)

let rec rlookup l = function
| [] -> None
| p :: r0 -> let (o', l') = p in if N.eqb l l' then Some o' else rlookup l r0

(** val bound_to : z -> n -> (z * n) list -> bool **)

let bound_to o l l0 =
  match lookup o l0 with
  | Some l' -> N.eqb l l'
  | None -> false

(** val find_handle : nat -> (n * nat) list -> n option **)

let rec find_handle i = function
| [] -> None
| p :: r0 ->
  let (l0, i') = p in if Nat.eqb i i' then Some l0 else find_handle i r0

(** val tev : (z * n) list -> (z * n) list -> nat list -> z -> z -> z -> m **)

let tev hb0 ib0 acts0 code obj val0 =
  let t = doA (TStep N0) in
  let pre = bnd (push_branch acts0) timeout_wake in
  let pre' = bnd pre dr_silent in
  (match code with
   | Zpos p ->
     (match p with
      | XI p0 ->
        (match p0 with
         | XI p1 ->
           (match p1 with
            | XI p2 ->
              (match p2 with
               | XO p3 ->
                 (match p3 with
                  | XO p4 ->
                    (match p4 with
                     | XH ->
                       bnd pre
                         (bnd
                           (guard (fun s ->
                             (&&) (tpc_is DR s) (has_id s.thid (s.lst s.thL))))
                           (bnd t
                             (guard (fun s -> eqb (tpc_is DR2 s) (znz val0)))))
                     | _ -> fail)
                  | _ -> fail)
               | _ -> fail)
            | XO p2 ->
              (match p2 with
               | XI p3 ->
                 (match p3 with
                  | XH -> bnd pre (guard (tpc_is DR))
                  | _ -> fail)
               | XO p3 ->
                 (match p3 with
                  | XO p4 ->
                    (match p4 with
                     | XH ->
                       bnd pre'
                         (bnd
                           (guard (fun s -> (||) (tpc_is K2 s) (tpc_is K4 s)))
                           (bnd
                             (guard (fun s ->
                               match s.lst s.tL with
                               | [] -> false
                               | e :: _ -> eqb e.elk (znz val0)))
                             (bnd t
                               (tsilent (S (S (S (S (S (S (S (S (S (S (S (S
                                 O))))))))))))))))
                     | _ -> fail)
                  | _ -> fail)
               | XH ->
                 bnd pre'
                   (bnd
                     (guard (fun s ->
                       (&&) (tpc_is SI s) (bound_to obj s.tL ib0))) t))
            | XH -> fail)
         | XO p1 ->
           (match p1 with
            | XI p2 ->
              (match p2 with
               | XI _ -> fail
               | XO p3 ->
                 (match p3 with
                  | XO p4 ->
                    (match p4 with
                     | XH ->
                       bnd pre'
                         (bnd (guard (tpc_is P2))
                           (bnd
                             (guard (fun s ->
                               match s.lst s.tL with
                               | [] -> false
                               | e :: _ -> eqb e.elk (znz val0))) (fun s ->
                             match s.lst s.tL with
                             | [] -> []
                             | e :: _ ->
                               if e.elk
                               then app
                                      (if N.ltb s.tnow e.edl then t s else [])
                                      (bnd (raise_to e.edl) t s)
                               else t s)))
                     | _ -> fail)
                  | _ -> fail)
               | XH ->
                 bnd pre'
                   (bnd
                     (guard (fun s ->
                       (&&) ((&&) (tpc_is F2 s) (bound_to obj s.tL ib0))
                         (Z.eqb (Z.of_nat (s.inuse s.tL)) val0)))
                     (bnd t
                       (tsilent (S (S (S (S (S (S (S (S (S (S (S (S
                         O))))))))))))))))
            | XO p2 ->
              (match p2 with
               | XI p3 ->
                 (match p3 with
                  | XH ->
                    bnd pre'
                      (ife (tpc_is D2) t
                        (bnd (guard (tpc_is TE))
                          (bnd t
                            (tsilent (S (S (S (S (S (S (S (S (S (S (S (S
                              O))))))))))))))))
                  | _ -> fail)
               | XO p3 ->
                 (match p3 with
                  | XI _ -> fail
                  | XO p4 ->
                    (match p4 with
                     | XH ->
                       bnd pre'
                         (bnd
                           (guard (fun s ->
                             (&&) (tpc_is E1 s) (bound_to obj s.tL hb0)))
                           (bnd t
                             (tsilent (S (S (S (S (S (S (S (S (S (S (S (S
                               O)))))))))))))))
                     | _ -> fail)
                  | XH ->
                    bnd pre'
                      (bnd
                        (guard (fun s ->
                          (&&) (tpc_is TT s) (eqb s.slot (znz val0))))
                        (bnd t
                          (tsilent (S (S (S (S (S (S (S (S (S (S (S (S
                            O))))))))))))))))
               | XH -> fail)
            | XH ->
              bnd pre'
                (bnd
                  (guard (fun s ->
                    (&&) (tpc_is PF s) (Nat.eqb s.tcur.eid (nat_of obj))))
                  (bnd (clock val0) t)))
         | XH -> fail)
      | XO p0 ->
        (match p0 with
         | XI p1 ->
           (match p1 with
            | XI p2 ->
              (match p2 with
               | XO p3 ->
                 (match p3 with
                  | XO p4 ->
                    (match p4 with
                     | XH -> bnd pre' (bnd (guard (tpc_is P3)) t)
                     | _ -> fail)
                  | _ -> fail)
               | _ -> fail)
            | XO p2 ->
              (match p2 with
               | XI p3 ->
                 (match p3 with
                  | XH ->
                    bnd pre'
                      (bnd (guard (tpc_is D3))
                        (bnd t
                          (guard (fun s -> eqb (tpc_is DR s) (znz val0)))))
                  | _ -> fail)
               | XO p3 ->
                 (match p3 with
                  | XO p4 ->
                    (match p4 with
                     | XH ->
                       bnd pre'
                         (bnd
                           (guard (fun s ->
                             (&&) ((||) (tpc_is K1 s) (tpc_is K3 s))
                               (bound_to obj s.tL hb0))) t)
                     | _ -> fail)
                  | _ -> fail)
               | XH -> fail)
            | XH -> fail)
         | XO p1 ->
           (match p1 with
            | XI p2 ->
              (match p2 with
               | XI p3 ->
                 (match p3 with
                  | XH -> bnd pre' (guard (tpc_is TE))
                  | _ -> fail)
               | XO p3 ->
                 (match p3 with
                  | XO p4 ->
                    (match p4 with
                     | XH ->
                       bnd pre'
                         (bnd
                           (guard (fun s ->
                             (&&) (tpc_is P1 s) (bound_to obj s.tL hb0))) t)
                     | _ -> fail)
                  | _ -> fail)
               | XH ->
                 bnd pre'
                   (bnd
                     (guard (fun s ->
                       (&&) ((&&) (tpc_is F1 s) (bound_to obj s.tL ib0))
                         (Z.eqb (Z.of_nat (s.inuse s.tL)) val0)))
                     (bnd t
                       (tsilent (S (S (S (S (S (S (S (S (S (S (S (S
                         O))))))))))))))))
            | XO p2 ->
              (match p2 with
               | XI p3 ->
                 (match p3 with
                  | XI _ -> fail
                  | XO p4 ->
                    (match p4 with
                     | XH -> bnd pre (bnd (guard (tpc_is DR2)) t)
                     | _ -> fail)
                  | XH ->
                    bnd pre'
                      (bnd (guard (tpc_is D1))
                        (bnd t
                          (guard (fun s -> eqb (tpc_is DR s) (znz val0))))))
               | XO p3 ->
                 (match p3 with
                  | XH -> bnd pre' (bnd (guard (tpc_is TS)) t)
                  | _ -> fail)
               | XH -> fail)
            | XH -> fail)
         | XH -> fail)
      | XH -> fail)
   | _ -> fail)

(** val uev : (z * n) list -> (z * n) list -> nat -> z -> z -> z -> m **)

let uev hb0 ib0 a0 code obj val0 =
  let sA = doA (AStep a0) in
  let sR = doA (RStep a0) in
  (match code with
   | Zpos p ->
     (match p with
      | XI p0 ->
        (match p0 with
         | XI p1 ->
           (match p1 with
            | XI p2 ->
              (match p2 with
               | XI p3 ->
                 (match p3 with
                  | XH -> bnd (guard (apc_is a0 A3)) sA
                  | _ -> fail)
               | XO p3 ->
                 (match p3 with
                  | XH -> bnd (guard (rpc_is a0 R2)) sR
                  | _ -> fail)
               | XH ->
                 bnd
                   (guard (fun s ->
                     (&&) (rpc_is a0 R3 s) (eqb s.slot (znz val0))))
                   (bnd sR (fun s ->
                     if rpc_is a0 R4 s then unpark_by sR s else s :: [])))
            | _ -> fail)
         | XO p1 ->
           (match p1 with
            | XI p2 ->
              (match p2 with
               | XO p3 ->
                 (match p3 with
                  | XH ->
                    bnd (guard (rpc_is a0 R1)) (if znz val0 then sR else ret)
                  | _ -> fail)
               | _ -> fail)
            | _ -> fail)
         | XH ->
           bnd
             (guard (fun s -> (&&) (apc_is a0 AIdle s) (rpc_is a0 RIdle s)))
             (bnd (clock val0) (fun s ->
               match find_handle (nat_of obj) s.handles with
               | Some l -> doA (Del (a0, l, (nat_of obj))) s
               | None -> [])))
      | XO p0 ->
        (match p0 with
         | XI p1 ->
           (match p1 with
            | XI p2 ->
              (match p2 with
               | XI p3 ->
                 (match p3 with
                  | XH ->
                    bnd
                      (guard (fun s ->
                        (&&) (apc_is a0 A2 s) (bound_to obj (s.a a0).aiv hb0)))
                      sA
                  | _ -> fail)
               | XO p3 ->
                 (match p3 with
                  | XH -> guard (rpc_is a0 R2)
                  | _ -> fail)
               | XH ->
                 bnd (push_force a0)
                   (bnd
                     (guard (fun s ->
                       (&&) (apc_is a0 A7 s) (eqb s.slot (znz val0))))
                     (bnd sA (fun s ->
                       if apc_is a0 A8 s then unpark_by sA s else s :: []))))
            | XO p2 ->
              (match p2 with
               | XH ->
                 bnd
                   (guard (fun s ->
                     (&&)
                       ((&&) (apc_is a0 A5 s) (bound_to obj (s.a a0).aiv ib0))
                       (Z.eqb (Z.of_nat (s.inuse (s.a a0).aiv)) val0)))
                   (bnd sA (fun s ->
                     if tpc_is SI s then s :: [] else push_force a0 s))
               | _ -> fail)
            | XH -> clock val0)
         | XO p1 ->
           (match p1 with
            | XI p2 ->
              (match p2 with
               | XO p3 ->
                 (match p3 with
                  | XH -> guard (rpc_is a0 R1)
                  | _ -> fail)
               | _ -> fail)
            | XO p2 ->
              (match p2 with
               | XO p3 ->
                 (match p3 with
                  | XO p4 ->
                    (match p4 with
                     | XH -> bnd (guard (apc_is a0 A4)) sA
                     | _ -> fail)
                  | _ -> fail)
               | _ -> fail)
            | XH -> guard (rpc_is a0 RIdle))
         | XH ->
           guard (fun s ->
             (&&) (apc_is a0 AIdle s) (Nat.eqb (s.a a0).aid (nat_of obj))))
      | XH ->
        bnd (guard (fun s -> (&&) (apc_is a0 AIdle s) (rpc_is a0 RIdle s)))
          (bnd (clock val0)
            (doA (Add (a0,
              (Z.to_N
                (Z.div obj (Zpos (XO (XO (XO (XO (XO (XO (XO (XO (XO (XO
                  XH))))))))))))),
              (nat_of
                (Z.modulo obj (Zpos (XO (XO (XO (XO (XO (XO (XO (XO (XO (XO
                  XH))))))))))))))))))
   | _ -> fail)

(** val is_timer_code : z -> bool **)

let is_timer_code = function
| Zpos p ->
  (match p with
   | XI p0 ->
     (match p0 with
      | XI p1 ->
        (match p1 with
         | XI p2 ->
           (match p2 with
            | XO p3 ->
              (match p3 with
               | XO p4 -> (match p4 with
                           | XH -> true
                           | _ -> false)
               | _ -> false)
            | _ -> false)
         | XO p2 ->
           (match p2 with
            | XI p3 -> (match p3 with
                        | XH -> true
                        | _ -> false)
            | XO p3 ->
              (match p3 with
               | XO p4 -> (match p4 with
                           | XH -> true
                           | _ -> false)
               | _ -> false)
            | XH -> true)
         | XH -> false)
      | XO p1 ->
        (match p1 with
         | XI p2 ->
           (match p2 with
            | XI _ -> false
            | XO p3 ->
              (match p3 with
               | XO p4 -> (match p4 with
                           | XH -> true
                           | _ -> false)
               | _ -> false)
            | XH -> true)
         | XO p2 ->
           (match p2 with
            | XI p3 -> (match p3 with
                        | XH -> true
                        | _ -> false)
            | XO p3 ->
              (match p3 with
               | XI _ -> false
               | XO p4 -> (match p4 with
                           | XH -> true
                           | _ -> false)
               | XH -> true)
            | XH -> false)
         | XH -> true)
      | XH -> false)
   | XO p0 ->
     (match p0 with
      | XI p1 ->
        (match p1 with
         | XI p2 ->
           (match p2 with
            | XO p3 ->
              (match p3 with
               | XO p4 -> (match p4 with
                           | XH -> true
                           | _ -> false)
               | _ -> false)
            | _ -> false)
         | XO p2 ->
           (match p2 with
            | XI p3 -> (match p3 with
                        | XH -> true
                        | _ -> false)
            | XO p3 ->
              (match p3 with
               | XO p4 -> (match p4 with
                           | XH -> true
                           | _ -> false)
               | _ -> false)
            | XH -> false)
         | XH -> false)
      | XO p1 ->
        (match p1 with
         | XI p2 ->
           (match p2 with
            | XI p3 -> (match p3 with
                        | XH -> true
                        | _ -> false)
            | XO p3 ->
              (match p3 with
               | XO p4 -> (match p4 with
                           | XH -> true
                           | _ -> false)
               | _ -> false)
            | XH -> true)
         | XO p2 ->
           (match p2 with
            | XI p3 ->
              (match p3 with
               | XI _ -> false
               | XO p4 -> (match p4 with
                           | XH -> true
                           | _ -> false)
               | XH -> true)
            | XO p3 -> (match p3 with
                        | XH -> true
                        | _ -> false)
            | XH -> false)
         | XH -> false)
      | XH -> false)
   | XH -> false)
| _ -> false

type acc = { cands : st list; hb : (z * n) list; ib : (z * n) list; tm : 
             z; acts : nat list }

(** val ainit : acc **)

let ainit =
  { cands = (init :: []); hb = []; ib = []; tm = Z0; acts = [] }

(** val bind : z -> n -> (z * n) list -> (z * n) list option **)

let bind o l l0 =
  match lookup o l0 with
  | Some l' ->
    (match rlookup l l0 with
     | Some o' -> if (&&) (N.eqb l l') (Z.eqb o o') then Some l0 else None
     | None -> None)
  | None ->
    (match rlookup l l0 with
     | Some _ -> None
     | None -> Some ((o, l) :: l0))

(** val accept_ev : acc -> z list -> acc option **)

let accept_ev a0 = function
| [] -> None
| code :: l ->
  (match l with
   | [] -> None
   | actor :: l0 ->
     (match l0 with
      | [] -> None
      | obj :: l1 ->
        (match l1 with
         | [] -> None
         | val0 :: l2 ->
           (match l2 with
            | [] ->
              if is_timer_code code
              then if (||) (Z.eqb a0.tm Z0) (Z.eqb a0.tm actor)
                   then (match flat_map
                                 (tev a0.hb a0.ib a0.acts code obj val0)
                                 a0.cands with
                         | [] -> None
                         | s :: l3 ->
                           Some { cands = (s :: l3); hb = a0.hb; ib = a0.ib;
                             tm = actor; acts = a0.acts })
                   else None
              else if Z.eqb a0.tm actor
                   then None
                   else let an = nat_of actor in
                        let s0 = hd init a0.cands in
                        let acts' =
                          if existsb (Nat.eqb an) a0.acts
                          then a0.acts
                          else an :: a0.acts
                        in
                        let hb' =
                          if Z.eqb code (Zpos (XO (XI (XI (XI XH)))))
                          then bind obj (s0.a an).aiv a0.hb
                          else Some a0.hb
                        in
                        let ib' =
                          if Z.eqb code (Zpos (XO (XI (XO XH))))
                          then bind obj (s0.a an).aiv a0.ib
                          else Some a0.ib
                        in
                        (match hb' with
                         | Some h ->
                           (match ib' with
                            | Some i ->
                              (match flat_map (uev h i an code obj val0)
                                       a0.cands with
                               | [] -> None
                               | s :: l3 ->
                                 Some { cands = (s :: l3); hb = h; ib = i;
                                   tm = a0.tm; acts = acts' })
                            | None -> None)
                         | None -> None)
            | _ :: _ -> None))))

(** val wakes_by_b : st -> entry -> bool **)

let wakes_by_b s e =
  match s.twake with
  | Some t -> N.leb t (N.add e.eeff s.tlag)
  | None -> false

(** val final_ok : acc -> st -> bool **)

let final_ok a0 s =
  if (&&) ((&&) (tpc_is W s) (negb s.tok))
       (forallb (fun x -> (&&) (apc_is x AIdle s) (rpc_is x RIdle s)) a0.acts)
  then (&&) (match s.rq with
             | [] -> true
             | _ :: _ -> false)
         (forallb (fun ol -> forallb (wakes_by_b s) (s.lst (snd ol))) a0.hb)
  else true

(** val monitors_ok : acc -> bool **)

let monitors_ok a0 =
  match a0.cands with
  | [] -> false
  | _ :: _ -> forallb (final_ok a0) a0.cands

(** val m_init : acc **)

let m_init =
  ainit

(** val m_accept : acc -> z list -> acc option **)

let m_accept =
  accept_ev

(** val m_final : acc -> bool **)

let m_final =
  monitors_ok
