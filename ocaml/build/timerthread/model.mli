
val negb : bool -> bool

type nat =
| O
| S of nat

val fst : ('a1 * 'a2) -> 'a1

val snd : ('a1 * 'a2) -> 'a2

val app : 'a1 list -> 'a1 list -> 'a1 list

type comparison =
| Eq
| Lt
| Gt

val compOpp : comparison -> comparison

val add : nat -> nat -> nat

val eqb : bool -> bool -> bool

module Nat :
 sig
  val eqb : nat -> nat -> bool
 end

val hd : 'a1 -> 'a1 list -> 'a1

val map : ('a1 -> 'a2) -> 'a1 list -> 'a2 list

val flat_map : ('a1 -> 'a2 list) -> 'a1 list -> 'a2 list

val existsb : ('a1 -> bool) -> 'a1 list -> bool

val forallb : ('a1 -> bool) -> 'a1 list -> bool

val filter : ('a1 -> bool) -> 'a1 list -> 'a1 list

type positive =
| XI of positive
| XO of positive
| XH

type n =
| N0
| Npos of positive

type z =
| Z0
| Zpos of positive
| Zneg of positive

module Pos :
 sig
  type mask =
  | IsNul
  | IsPos of positive
  | IsNeg
 end

module Coq_Pos :
 sig
  val succ : positive -> positive

  val add : positive -> positive -> positive

  val add_carry : positive -> positive -> positive

  val pred_double : positive -> positive

  type mask = Pos.mask =
  | IsNul
  | IsPos of positive
  | IsNeg

  val succ_double_mask : mask -> mask

  val double_mask : mask -> mask

  val double_pred_mask : positive -> mask

  val sub_mask : positive -> positive -> mask

  val sub_mask_carry : positive -> positive -> mask

  val mul : positive -> positive -> positive

  val compare_cont : comparison -> positive -> positive -> comparison

  val compare : positive -> positive -> comparison

  val eqb : positive -> positive -> bool

  val iter_op : ('a1 -> 'a1 -> 'a1) -> positive -> 'a1 -> 'a1

  val to_nat : positive -> nat

  val of_succ_nat : nat -> positive
 end

module N :
 sig
  val add : n -> n -> n

  val sub : n -> n -> n

  val compare : n -> n -> comparison

  val eqb : n -> n -> bool

  val leb : n -> n -> bool

  val ltb : n -> n -> bool

  val min : n -> n -> n
 end

module Z :
 sig
  val double : z -> z

  val succ_double : z -> z

  val pred_double : z -> z

  val pos_sub : positive -> positive -> z

  val add : z -> z -> z

  val opp : z -> z

  val sub : z -> z -> z

  val mul : z -> z -> z

  val compare : z -> z -> comparison

  val leb : z -> z -> bool

  val ltb : z -> z -> bool

  val eqb : z -> z -> bool

  val to_nat : z -> nat

  val to_N : z -> n

  val of_nat : nat -> z

  val pos_div_eucl : positive -> z -> z * z

  val div_eucl : z -> z -> z * z

  val div : z -> z -> z

  val modulo : z -> z -> z
 end

type entry = { eid : nat; edl : n; eeff : n; elk : bool }

type qitem = { qL : n; qid : nat; qrdy : bool; qr : nat }

type apc_t =
| AIdle
| A2
| A3
| A4
| A5
| A6
| A7
| A8

type rpc_t =
| RIdle
| R1
| R2
| R3
| R4

type tpc_t =
| D1
| D2
| D3
| DR
| DR2
| TS
| TE
| TT
| TU
| TN
| SK
| SI
| P1
| P2
| P3
| PF
| K1
| K2
| F1
| SH
| E1
| F2
| K3
| K4
| PK
| W

type adder = { apc : apc_t; aiv : n; adl : n; aid : nat; ahd : bool }

type remover = { rpc : rpc_t; rL : n; rid : nat }

type st = { now : n; lst : (n -> entry list); inuse : (n -> nat);
            heap : (n * n) list; slot : bool; tok : bool; rq : qitem list;
            tpc : tpc_t; tL : n; tnow : n; ttm : n; tcur : entry; thL : 
            n; thid : nat; aim : n option; twake : n option;
            a : (nat -> adder); r : (nat -> remover); tlag : n;
            used : nat list; fired : ((nat * n) * n) list;
            removed : nat list; handles : (n * nat) list }

val upd : (nat -> 'a1) -> nat -> 'a1 -> nat -> 'a1

val updN : (n -> 'a1) -> n -> 'a1 -> n -> 'a1

val wA : st -> nat -> adder -> st

val wR : st -> nat -> remover -> st

val wLst : st -> n -> entry list -> st

val wInuse : st -> n -> nat -> st

val wHeap : st -> (n * n) list -> st

val wSlot : st -> bool -> st

val wTok : st -> bool -> st

val wRq : st -> qitem list -> st

val wPc : st -> tpc_t -> st

val wTL : st -> n -> st

val wTnow : st -> n -> st

val wTtm : st -> n -> st

val wTcur : st -> entry -> st

val wTh : st -> n -> nat -> st

val wAim : st -> n option -> st

val wWake : st -> n option -> n -> st

val wNow : st -> n -> st

val wUsed : st -> nat list -> st

val wFired : st -> ((nat * n) * n) list -> st

val wRemoved : st -> nat list -> st

val wHandles : st -> (n * nat) list -> st

val set_apc : adder -> apc_t -> adder

val set_ahd : adder -> apc_t -> bool -> adder

val set_rpc : remover -> rpc_t -> remover

val e0 : entry

val is_first : nat -> entry list -> bool

val link : nat -> entry list -> entry list

val del_id : nat -> entry list -> entry list

val removable : nat -> entry list -> bool

val has_id : nat -> entry list -> bool

val hfind : n -> (n * n) list -> n option

val hdel : n -> (n * n) list -> (n * n) list

val hmin : (n * n) list -> n option

val none_due : n -> (n * n) list -> bool

val is_min : n -> (n * n) list -> bool

val set_ready : nat -> qitem list -> qitem list

val remove_handle : n -> nat -> (n * nat) list -> (n * nat) list

val has_handle : n -> nat -> (n * nat) list -> bool

val mem_nat : nat -> nat list -> bool

type action =
| Tick of n
| Add of nat * n * nat
| Del of nat * n * nat
| AStep of nat
| RStep of nat
| TStep of n
| TClock of n

val astep : st -> nat -> st option

val rstep : st -> nat -> st option

val after_drain : bool -> tpc_t

val after_recheck : bool -> tpc_t

val after_sched : bool -> tpc_t

val pop_rq : st -> st option

val tstep : bool -> st -> n -> st option

val step : bool -> st -> action -> st option

val init : st

val tpc_t_eq_dec : tpc_t -> tpc_t -> bool

val apc_t_eq_dec : apc_t -> apc_t -> bool

val rpc_t_eq_dec : rpc_t -> rpc_t -> bool

type m = st -> st list

val ret : m

val fail : m

val doA : action -> m

val guard : (st -> bool) -> m

val bnd : m -> m -> m

val ife : (st -> bool) -> m -> m -> m

val tpc_is : tpc_t -> st -> bool

val apc_is : nat -> apc_t -> st -> bool

val rpc_is : nat -> rpc_t -> st -> bool

val znz : z -> bool

val raise_to : n -> m

val settle : m

val tsilent : nat -> m

val wake_if_parked : m

val timeout_wake : m

val early_timeout : m

val unpark_by : m -> m

val timeout_due : m

val dr_silent : m

val push_branch : nat list -> m

val push_force : nat -> m

val clock : z -> m

val nat_of : z -> nat

val lookup : z -> (z * n) list -> n option

val rlookup : n -> (z * n) list -> z option

val bound_to : z -> n -> (z * n) list -> bool

val find_handle : nat -> (n * nat) list -> n option

val tev : (z * n) list -> (z * n) list -> nat list -> z -> z -> z -> m

val uev : (z * n) list -> (z * n) list -> nat -> z -> z -> z -> m

val is_timer_code : z -> bool

type acc = { cands : st list; hb : (z * n) list; ib : (z * n) list; tm : 
             z; acts : nat list }

val ainit : acc

val bind : z -> n -> (z * n) list -> (z * n) list option

val accept_ev : acc -> z list -> acc option

val wakes_by_b : st -> entry -> bool

val final_ok : acc -> st -> bool

val monitors_ok : acc -> bool

val m_init : acc

val m_accept : acc -> z list -> acc option

val m_final : acc -> bool
