
val negb : bool -> bool

type nat =
| O
| S of nat

val fst : ('a1 * 'a2) -> 'a1

val app : 'a1 list -> 'a1 list -> 'a1 list

val pred : nat -> nat

val add : nat -> nat -> nat

val eqb : bool -> bool -> bool

module Nat :
 sig
  val eqb : nat -> nat -> bool

  val eq_dec : nat -> nat -> bool
 end

val remove : ('a1 -> 'a1 -> bool) -> 'a1 -> 'a1 list -> 'a1 list

val flat_map : ('a1 -> 'a2 list) -> 'a1 list -> 'a2 list

val existsb : ('a1 -> bool) -> 'a1 list -> bool

val firstn : nat -> 'a1 list -> 'a1 list

type positive =
| XI of positive
| XO of positive
| XH

type z =
| Z0
| Zpos of positive
| Zneg of positive

module Pos :
 sig
  val succ : positive -> positive

  val add : positive -> positive -> positive

  val add_carry : positive -> positive -> positive

  val pred_double : positive -> positive

  val mul : positive -> positive -> positive

  val eqb : positive -> positive -> bool

  val iter_op : ('a1 -> 'a1 -> 'a1) -> positive -> 'a1 -> 'a1

  val to_nat : positive -> nat

  val of_succ_nat : nat -> positive
 end

module Z :
 sig
  val double : z -> z

  val succ_double : z -> z

  val pred_double : z -> z

  val pos_sub : positive -> positive -> z

  val add : z -> z -> z

  val mul : z -> z -> z

  val eqb : z -> z -> bool

  val to_nat : z -> nat

  val of_nat : nat -> z
 end

type val0 = nat * nat

type rpc =
| RIdle
| RStore
| RPop1
| RChk
| RPop2
| RClear
| RPark
| RWait
| RDeadline
| RPd0
| RPd1

type tctx =
| CTry
| CFirst
| CReg
| CFin

type api =
| ATry
| ARecv
| ATimed
| ADrop

type res =
| RNone
| ROk of val0
| REmpty
| RDisc
| RTimeout
| RCancel

type rsn =
| RU
| RT
| RC

type spc =
| SIdle
| SChk
| SPush
| STake
| SUnpark
| SAdd
| SSub

type hst =
| Unborn
| Alive
| Dead

type rcvr = { rp : rpc; rc : tctx; rapi : api; rb : nat; rco : bool;
              rres : res; rdata : res; ralive : bool; rdead : bool }

type sndr = { sp : spc; sw : nat; sto : nat; sst : hst; sres : bool;
              sdead : bool; sn : nat }

type blk = { tok : bool; parked : bool; reason : rsn option }

type st = { q : val0 list; slot : nat option; chans : nat; pdrop : bool;
            nextb : nat; r : rcvr; sd : (nat -> sndr); bk : (nat -> blk);
            sent : val0 list; rcvd : val0 list; drpd : val0 list;
            live : nat list; freed : bool }

val upd : (nat -> 'a1) -> nat -> 'a1 -> nat -> 'a1

val mk :
  val0 list -> nat option -> nat -> bool -> nat -> rcvr -> (nat -> sndr) ->
  (nat -> blk) -> val0 list -> val0 list -> val0 list -> nat list -> bool ->
  st

val fresh : blk

val rm : nat -> nat list -> nat list

val r_set : rcvr -> rpc -> tctx -> rcvr

val r_ret : rcvr -> res -> rcvr

val r_data : rcvr -> res -> rcvr

val r_empty : rcvr -> rcvr

val r_start : rcvr -> api -> bool -> rpc -> tctx -> bool -> rcvr

val r_reg : rcvr -> nat -> rcvr

val r_gone : rcvr -> rcvr

val s_pc : sndr -> spc -> sndr

val s_call : sndr -> spc -> nat -> bool -> sndr

val s_res : sndr -> spc -> bool -> sndr

val s_pushed : sndr -> sndr

val s_took : sndr -> nat -> sndr

val s_st : sndr -> spc -> hst -> sndr

val b_unpark : blk -> blk

val b_tok : blk -> bool -> blk

val b_park : blk -> blk

val b_fire : blk -> rsn -> blk

type action =
| TryRecv
| Recv of bool
| RecvTimeout of bool
| DropPort
| RStep
| RDl of bool
| Fire of rsn
| Send of nat
| Clone of nat * nat
| DropChan of nat
| SStep of nat
| Free

val is_idle : rcvr -> bool

val s_ready : sndr -> bool

val is0 : nat -> bool

val step : st -> action -> st option

val rcv0 : rcvr

val snd0 : hst -> sndr

val init : st

type aux = { started : bool; ract : nat; hof : (nat -> nat); ph : nat;
             opk : (nat -> z); qt : z; qh : z; nb : nat }

val aux0 : aux

type ast = st * aux

val a_init : ast

val set_ract : aux -> nat -> aux

val set_hof : aux -> nat -> nat -> aux

val set_ph : aux -> nat -> aux

val set_opk : aux -> (nat -> z) -> aux

val set_qt : aux -> z -> aux

val set_nb : aux -> nat -> aux

val set_qh : aux -> z -> aux

val rpc_eqb : rpc -> rpc -> bool

val spc_eqb : spc -> spc -> bool

val zb : z -> bool

val isnone : 'a1 option -> bool

val isnil : 'a1 list -> bool

val res_is : res -> z -> z -> bool

val bind_obj : (nat -> z) -> nat -> z -> (nat -> z) option

type plan = { acts : action list; post : (st -> bool); nxt : (st -> aux) }

val steps : st -> action list -> st option

val guard : bool -> plan option -> plan option

val ok : action list -> aux -> plan option

val skip : aux -> plan option

val at_r : st -> rpc -> bool

val at_s : st -> nat -> spc -> bool

val in_pop : st -> bool

val is_r : aux -> nat -> bool

val resume : st -> action list

val plan_ev : st -> aux -> z list -> plan option

val accept_ev : ast -> z list -> ast option

val branch : ast -> z list -> ast list

val accept1 : z list -> ast -> ast list

val accept_evm : ast list -> z list -> ast list option

val m_initm : ast list

val vals_eqb : val0 list -> val0 list -> bool

val monitors_ok : ast -> bool

val monitors_okm : ast list -> bool

val m_init : ast list

val m_accept : ast list -> z list -> ast list option

val m_final : ast list -> bool
