(* Generic trace acceptor driver.  Linked against one extracted model exposing
     m_init : st      m_accept : st -> z list -> st option      m_final : st -> bool
   Input (stdin): lines "T <name>" start a new trace from m_init; every other non-empty line is
   one event: space separated integers in hexadecimal (optionally negative with a leading '-').
   Output: one line per trace: ACCEPT <name> <events> | REJECT <name> <event#> <line> | MONITOR <name>. *)
open Model

let rec pos_of_bits = function
  | [] -> XH
  | b :: rest -> let p = pos_of_bits rest in if b then XI p else XO p

(* hex string -> Coq Z, no overflow *)
let z_of_hex (s : string) : z =
  let neg, s = if String.length s > 0 && s.[0] = '-' then (true, String.sub s 1 (String.length s - 1)) else (false, s) in
  let bits = ref [] in  (* most significant first *)
  String.iter (fun c ->
    let d = match c with
      | '0'..'9' -> Char.code c - 48 | 'a'..'f' -> Char.code c - 87 | 'A'..'F' -> Char.code c - 55
      | _ -> failwith ("bad hex digit in " ^ s) in
    bits := !bits @ [d land 8 <> 0; d land 4 <> 0; d land 2 <> 0; d land 1 <> 0]) s;
  let rec strip = function false :: r -> strip r | l -> l in
  match strip !bits with
  | [] -> Z0
  | _ :: rest (* leading one *) ->
      (* rest is most-significant-first; pos_of_bits wants least-significant-first with the leading one implicit at the end *)
      let p = pos_of_bits (List.rev rest) in
      if neg then Zneg p else Zpos p

let () =
  let st = ref m_init and name = ref "" and n = ref 0 and dead = ref false and started = ref false in
  let total = ref 0 and rejected = ref 0 in
  let close () =
    if !started then begin
      incr total;
      if not !dead then begin
        if m_final !st then Printf.printf "ACCEPT %s %d\n" !name !n
        else (incr rejected; Printf.printf "MONITOR %s %d\n" !name !n)
      end end in
  (try while true do
    let l = String.trim (input_line stdin) in
    if l = "" then ()
    else if String.length l > 1 && l.[0] = 'T' && l.[1] = ' ' then begin
      close (); started := true; name := String.sub l 2 (String.length l - 2); st := m_init; n := 0; dead := false end
    else if not !dead then begin
      incr n;
      let ev = List.map z_of_hex (List.filter (fun x -> x <> "") (String.split_on_char ' ' l)) in
      match m_accept !st ev with
      | Some s' -> st := s'
      | None -> dead := true; incr rejected; Printf.printf "REJECT %s %d %s\n" !name !n l
    end
  done with End_of_file -> ());
  close ();
  Printf.printf "SUMMARY traces=%d rejected=%d\n" !total !rejected;
  exit (if !rejected = 0 then 0 else 1)
