
(** val negb : bool -> bool **)

let negb = function
| true -> false
| false -> true

type nat =
| O
| S of nat

(** val app : 'a1 list -> 'a1 list -> 'a1 list **)

let rec app l m =
  match l with
  | [] -> m
  | a0 :: l1 -> a0 :: (app l1 m)

type comparison =
| Eq
| Lt
| Gt

(** val compOpp : comparison -> comparison **)

let compOpp = function
| Eq -> Eq
| Lt -> Gt
| Gt -> Lt

module Coq__1 = struct
 (** val add : nat -> nat -> nat **)
 let rec add n m =
   match n with
   | O -> m
   | S p -> S (add p m)
end
include Coq__1

(** val mul : nat -> nat -> nat **)

let rec mul n m =
  match n with
  | O -> O
  | S p -> add m (mul p m)

(** val sub : nat -> nat -> nat **)

let rec sub n m =
  match n with
  | O -> n
  | S k -> (match m with
            | O -> n
            | S l -> sub k l)

(** val eqb : bool -> bool -> bool **)

let eqb b1 b2 =
  if b1 then b2 else if b2 then false else true

module Nat =
 struct
  (** val eqb : nat -> nat -> bool **)

  let rec eqb n m =
    match n with
    | O -> (match m with
            | O -> true
            | S _ -> false)
    | S n' -> (match m with
               | O -> false
               | S m' -> eqb n' m')

  (** val leb : nat -> nat -> bool **)

  let rec leb n m =
    match n with
    | O -> true
    | S n' -> (match m with
               | O -> false
               | S m' -> leb n' m')

  (** val ltb : nat -> nat -> bool **)

  let ltb n m =
    leb (S n) m

  (** val eq_dec : nat -> nat -> bool **)

  let rec eq_dec n m =
    match n with
    | O -> (match m with
            | O -> true
            | S _ -> false)
    | S n0 -> (match m with
               | O -> false
               | S n1 -> eq_dec n0 n1)
 end

(** val remove : ('a1 -> 'a1 -> bool) -> 'a1 -> 'a1 list -> 'a1 list **)

let rec remove eq_dec0 x = function
| [] -> []
| y :: tl ->
  if eq_dec0 x y then remove eq_dec0 x tl else y :: (remove eq_dec0 x tl)

(** val count_occ : ('a1 -> 'a1 -> bool) -> 'a1 list -> 'a1 -> nat **)

let rec count_occ eq_dec0 l x =
  match l with
  | [] -> O
  | y :: tl ->
    let n = count_occ eq_dec0 tl x in if eq_dec0 y x then S n else n

(** val existsb : ('a1 -> bool) -> 'a1 list -> bool **)

let rec existsb f = function
| [] -> false
| a0 :: l0 -> (||) (f a0) (existsb f l0)

(** val filter : ('a1 -> bool) -> 'a1 list -> 'a1 list **)

let rec filter f = function
| [] -> []
| x :: l0 -> if f x then x :: (filter f l0) else filter f l0

type positive =
| XI of positive
| XO of positive
| XH

type z =
| Z0
| Zpos of positive
| Zneg of positive

module Pos =
 struct
  (** val succ : positive -> positive **)

  let rec succ = function
  | XI p -> XO (succ p)
  | XO p -> XI p
  | XH -> XO XH

  (** val add : positive -> positive -> positive **)

  let rec add x y =
    match x with
    | XI p ->
      (match y with
       | XI q0 -> XO (add_carry p q0)
       | XO q0 -> XI (add p q0)
       | XH -> XO (succ p))
    | XO p ->
      (match y with
       | XI q0 -> XI (add p q0)
       | XO q0 -> XO (add p q0)
       | XH -> XI p)
    | XH -> (match y with
             | XI q0 -> XO (succ q0)
             | XO q0 -> XI q0
             | XH -> XO XH)

  (** val add_carry : positive -> positive -> positive **)

  and add_carry x y =
    match x with
    | XI p ->
      (match y with
       | XI q0 -> XI (add_carry p q0)
       | XO q0 -> XO (add_carry p q0)
       | XH -> XI (succ p))
    | XO p ->
      (match y with
       | XI q0 -> XO (add_carry p q0)
       | XO q0 -> XI (add p q0)
       | XH -> XO (succ p))
    | XH ->
      (match y with
       | XI q0 -> XI (succ q0)
       | XO q0 -> XO (succ q0)
       | XH -> XI XH)

  (** val pred_double : positive -> positive **)

  let rec pred_double = function
  | XI p -> XI (XO p)
  | XO p -> XI (pred_double p)
  | XH -> XH

  (** val mul : positive -> positive -> positive **)

  let rec mul x y =
    match x with
    | XI p -> add y (XO (mul p y))
    | XO p -> XO (mul p y)
    | XH -> y

  (** val iter : ('a1 -> 'a1) -> 'a1 -> positive -> 'a1 **)

  let rec iter f x = function
  | XI n' -> f (iter f (iter f x n') n')
  | XO n' -> iter f (iter f x n') n'
  | XH -> f x

  (** val compare_cont : comparison -> positive -> positive -> comparison **)

  let rec compare_cont r0 x y =
    match x with
    | XI p ->
      (match y with
       | XI q0 -> compare_cont r0 p q0
       | XO q0 -> compare_cont Gt p q0
       | XH -> Gt)
    | XO p ->
      (match y with
       | XI q0 -> compare_cont Lt p q0
       | XO q0 -> compare_cont r0 p q0
       | XH -> Gt)
    | XH -> (match y with
             | XH -> r0
             | _ -> Lt)

  (** val compare : positive -> positive -> comparison **)

  let compare =
    compare_cont Eq

  (** val eqb : positive -> positive -> bool **)

  let rec eqb p q0 =
    match p with
    | XI p0 -> (match q0 with
                | XI q1 -> eqb p0 q1
                | _ -> false)
    | XO p0 -> (match q0 with
                | XO q1 -> eqb p0 q1
                | _ -> false)
    | XH -> (match q0 with
             | XH -> true
             | _ -> false)

  (** val iter_op : ('a1 -> 'a1 -> 'a1) -> positive -> 'a1 -> 'a1 **)

  let rec iter_op op0 p a0 =
    match p with
    | XI p0 -> op0 a0 (iter_op op0 p0 (op0 a0 a0))
    | XO p0 -> iter_op op0 p0 (op0 a0 a0)
    | XH -> a0

  (** val to_nat : positive -> nat **)

  let to_nat x =
    iter_op Coq__1.add x (S O)

  (** val of_succ_nat : nat -> positive **)

  let rec of_succ_nat = function
  | O -> XH
  | S x -> succ (of_succ_nat x)
 end

module Z =
 struct
  (** val double : z -> z **)

  let double = function
  | Z0 -> Z0
  | Zpos p -> Zpos (XO p)
  | Zneg p -> Zneg (XO p)

  (** val succ_double : z -> z **)

  let succ_double = function
  | Z0 -> Zpos XH
  | Zpos p -> Zpos (XI p)
  | Zneg p -> Zneg (Pos.pred_double p)

  (** val pred_double : z -> z **)

  let pred_double = function
  | Z0 -> Zneg XH
  | Zpos p -> Zpos (Pos.pred_double p)
  | Zneg p -> Zneg (XI p)

  (** val pos_sub : positive -> positive -> z **)

  let rec pos_sub x y =
    match x with
    | XI p ->
      (match y with
       | XI q0 -> double (pos_sub p q0)
       | XO q0 -> succ_double (pos_sub p q0)
       | XH -> Zpos (XO p))
    | XO p ->
      (match y with
       | XI q0 -> pred_double (pos_sub p q0)
       | XO q0 -> double (pos_sub p q0)
       | XH -> Zpos (Pos.pred_double p))
    | XH ->
      (match y with
       | XI q0 -> Zneg (XO q0)
       | XO q0 -> Zneg (Pos.pred_double q0)
       | XH -> Z0)

  (** val add : z -> z -> z **)

  let add x y =
    match x with
    | Z0 -> y
    | Zpos x' ->
      (match y with
       | Z0 -> x
       | Zpos y' -> Zpos (Pos.add x' y')
       | Zneg y' -> pos_sub x' y')
    | Zneg x' ->
      (match y with
       | Z0 -> x
       | Zpos y' -> pos_sub y' x'
       | Zneg y' -> Zneg (Pos.add x' y'))

  (** val opp : z -> z **)

  let opp = function
  | Z0 -> Z0
  | Zpos x0 -> Zneg x0
  | Zneg x0 -> Zpos x0

  (** val sub : z -> z -> z **)

  let sub m n =
    add m (opp n)

  (** val mul : z -> z -> z **)

  let mul x y =
    match x with
    | Z0 -> Z0
    | Zpos x' ->
      (match y with
       | Z0 -> Z0
       | Zpos y' -> Zpos (Pos.mul x' y')
       | Zneg y' -> Zneg (Pos.mul x' y'))
    | Zneg x' ->
      (match y with
       | Z0 -> Z0
       | Zpos y' -> Zneg (Pos.mul x' y')
       | Zneg y' -> Zpos (Pos.mul x' y'))

  (** val pow_pos : z -> positive -> z **)

  let pow_pos z0 =
    Pos.iter (mul z0) (Zpos XH)

  (** val pow : z -> z -> z **)

  let pow x = function
  | Z0 -> Zpos XH
  | Zpos p -> pow_pos x p
  | Zneg _ -> Z0

  (** val compare : z -> z -> comparison **)

  let compare x y =
    match x with
    | Z0 -> (match y with
             | Z0 -> Eq
             | Zpos _ -> Lt
             | Zneg _ -> Gt)
    | Zpos x' -> (match y with
                  | Zpos y' -> Pos.compare x' y'
                  | _ -> Gt)
    | Zneg x' ->
      (match y with
       | Zneg y' -> compOpp (Pos.compare x' y')
       | _ -> Lt)

  (** val leb : z -> z -> bool **)

  let leb x y =
    match compare x y with
    | Gt -> false
    | _ -> true

  (** val ltb : z -> z -> bool **)

  let ltb x y =
    match compare x y with
    | Lt -> true
    | _ -> false

  (** val eqb : z -> z -> bool **)

  let eqb x y =
    match x with
    | Z0 -> (match y with
             | Z0 -> true
             | _ -> false)
    | Zpos p -> (match y with
                 | Zpos q0 -> Pos.eqb p q0
                 | _ -> false)
    | Zneg p -> (match y with
                 | Zneg q0 -> Pos.eqb p q0
                 | _ -> false)

  (** val to_nat : z -> nat **)

  let to_nat = function
  | Zpos p -> Pos.to_nat p
  | _ -> O

  (** val of_nat : nat -> z **)

  let of_nat = function
  | O -> Z0
  | S n0 -> Zpos (Pos.of_succ_nat n0)

  (** val pos_div_eucl : positive -> z -> z * z **)

  let rec pos_div_eucl a0 b =
    match a0 with
    | XI a' ->
      let (q0, r0) = pos_div_eucl a' b in
      let r' = add (mul (Zpos (XO XH)) r0) (Zpos XH) in
      if ltb r' b
      then ((mul (Zpos (XO XH)) q0), r')
      else ((add (mul (Zpos (XO XH)) q0) (Zpos XH)), (sub r' b))
    | XO a' ->
      let (q0, r0) = pos_div_eucl a' b in
      let r' = mul (Zpos (XO XH)) r0 in
      if ltb r' b
      then ((mul (Zpos (XO XH)) q0), r')
      else ((add (mul (Zpos (XO XH)) q0) (Zpos XH)), (sub r' b))
    | XH -> if leb (Zpos (XO XH)) b then (Z0, (Zpos XH)) else ((Zpos XH), Z0)

  (** val div_eucl : z -> z -> z * z **)

  let div_eucl a0 b =
    match a0 with
    | Z0 -> (Z0, Z0)
    | Zpos a' ->
      (match b with
       | Z0 -> (Z0, a0)
       | Zpos _ -> pos_div_eucl a' b
       | Zneg b' ->
         let (q0, r0) = pos_div_eucl a' (Zpos b') in
         (match r0 with
          | Z0 -> ((opp q0), Z0)
          | _ -> ((opp (add q0 (Zpos XH))), (add b r0))))
    | Zneg a' ->
      (match b with
       | Z0 -> (Z0, a0)
       | Zpos _ ->
         let (q0, r0) = pos_div_eucl a' b in
         (match r0 with
          | Z0 -> ((opp q0), Z0)
          | _ -> ((opp (add q0 (Zpos XH))), (sub b r0)))
       | Zneg b' -> let (q0, r0) = pos_div_eucl a' (Zpos b') in (q0, (opp r0)))

  (** val modulo : z -> z -> z **)

  let modulo a0 b =
    let (_, r0) = div_eucl a0 b in r0
 end

(** val wd : z **)

let wd =
  Z.pow (Zpos (XO XH)) (Zpos (XO (XO (XO (XO (XO (XO XH)))))))

type op =
| ORead
| OTryRead
| OWrite
| OTryWrite

(** val is_read : op -> bool **)

let is_read = function
| ORead -> true
| OTryRead -> true
| _ -> false

type pc =
| Idle
| Exit
| RL
| T0
| T1
| L1
| L2
| H1
| H2
| H3
| H4
| U0
| PK
| C1
| C2
| C3
| C4
| GW
| RG
| RUh
| RUi
| RUx
| HoldW
| HoldR
| DWP
| DR0

type ctx =
| RPark
| RDoneW
| RDoneR
| RExit

type hold =
| HNone
| HA of nat
| HB of nat
| HG

type act = { apc : pc; aop : op; ab : nat; aw : nat; actx : ctx;
             afor : nat option }

type blk = { tok : bool; unp : bool; rel : bool; owner : nat; ag : nat }

type st = { cnt : nat; q : nat list; nextb : nat; rl : nat option; r : 
            z; pois : bool; a : (nat -> act); bk : (nat -> blk);
            holder : hold; ent : nat option list; rdl : nat list; ovf : 
            bool }

(** val upd : (nat -> 'a1) -> nat -> 'a1 -> nat -> 'a1 **)

let upd f i v j =
  if Nat.eqb j i then v else f j

(** val oeq_dec : nat option -> nat option -> bool **)

let oeq_dec x y =
  match x with
  | Some a0 -> (match y with
                | Some a1 -> Nat.eq_dec a0 a1
                | None -> false)
  | None -> (match y with
             | Some _ -> false
             | None -> true)

(** val wA : st -> nat -> act -> st **)

let wA s a0 x =
  { cnt = s.cnt; q = s.q; nextb = s.nextb; rl = s.rl; r = s.r; pois = s.pois;
    a = (upd s.a a0 x); bk = s.bk; holder = s.holder; ent = s.ent; rdl =
    s.rdl; ovf = s.ovf }

(** val wB : st -> nat -> blk -> st **)

let wB s b k =
  { cnt = s.cnt; q = s.q; nextb = s.nextb; rl = s.rl; r = s.r; pois = s.pois;
    a = s.a; bk = (upd s.bk b k); holder = s.holder; ent = s.ent; rdl =
    s.rdl; ovf = s.ovf }

(** val wC : st -> nat -> st **)

let wC s c =
  { cnt = c; q = s.q; nextb = s.nextb; rl = s.rl; r = s.r; pois = s.pois; a =
    s.a; bk = s.bk; holder = s.holder; ent = s.ent; rdl = s.rdl; ovf = s.ovf }

(** val wQ : st -> nat list -> nat -> st **)

let wQ s l n =
  { cnt = s.cnt; q = l; nextb = n; rl = s.rl; r = s.r; pois = s.pois; a =
    s.a; bk = s.bk; holder = s.holder; ent = s.ent; rdl = s.rdl; ovf = s.ovf }

(** val wH : st -> hold -> nat option list -> st **)

let wH s h e =
  { cnt = s.cnt; q = s.q; nextb = s.nextb; rl = s.rl; r = s.r; pois = s.pois;
    a = s.a; bk = s.bk; holder = h; ent = e; rdl = s.rdl; ovf = s.ovf }

(** val wL : st -> nat option -> st **)

let wL s l =
  { cnt = s.cnt; q = s.q; nextb = s.nextb; rl = l; r = s.r; pois = s.pois;
    a = s.a; bk = s.bk; holder = s.holder; ent = s.ent; rdl = s.rdl; ovf =
    s.ovf }

(** val wR : st -> z -> nat list -> bool -> st **)

let wR s x d o =
  { cnt = s.cnt; q = s.q; nextb = s.nextb; rl = s.rl; r = x; pois = s.pois;
    a = s.a; bk = s.bk; holder = s.holder; ent = s.ent; rdl = d; ovf = o }

(** val wP : st -> bool -> st **)

let wP s p =
  { cnt = s.cnt; q = s.q; nextb = s.nextb; rl = s.rl; r = s.r; pois = p; a =
    s.a; bk = s.bk; holder = s.holder; ent = s.ent; rdl = s.rdl; ovf = s.ovf }

(** val set_pc : act -> pc -> act **)

let set_pc x p =
  { apc = p; aop = x.aop; ab = x.ab; aw = x.aw; actx = x.actx; afor = x.afor }

(** val set_pcx : act -> pc -> ctx -> nat option -> act **)

let set_pcx x p c f =
  { apc = p; aop = x.aop; ab = x.ab; aw = x.aw; actx = c; afor = f }

(** val fresh : nat -> blk **)

let fresh o =
  { tok = false; unp = false; rel = false; owner = o; ag = O }

(** val isRPark : ctx -> bool **)

let isRPark = function
| RPark -> true
| _ -> false

(** val fail_pc : op -> pc **)

let fail_pc = function
| OTryRead -> RUi
| OTryWrite -> Idle
| _ -> L1

(** val got_pc : op -> pc **)

let got_pc o =
  if is_read o then RG else GW

(** val exit_pc : op -> pc **)

let exit_pc o =
  if is_read o then RUx else Exit

(** val ret_pc : ctx -> op -> pc **)

let ret_pc c o =
  match c with
  | RPark -> PK
  | RDoneW -> Idle
  | RDoneR -> RUi
  | RExit -> exit_pc o

type action =
| Call of nat * op
| Step of nat
| Busy of nat
| Abort of nat
| Drop of nat
| Panic of nat

(** val step : st -> action -> st option **)

let step s = function
| Call (a0, o) ->
  let x = s.a a0 in
  (match x.apc with
   | Idle ->
     Some
       (wA s a0 { apc = (if is_read o then RL else T0); aop = o; ab = x.ab;
         aw = x.aw; actx = x.actx; afor = x.afor })
   | _ -> None)
| Step a0 ->
  let x = s.a a0 in
  let o = x.aop in
  let b = s.bk x.ab in
  let w = s.bk x.aw in
  (match x.apc with
   | RL ->
     (match s.rl with
      | Some _ -> None
      | None ->
        Some
          (wA (wL s (Some a0)) a0
            (set_pc x (if Z.eqb s.r Z0 then T0 else RG))))
   | T0 ->
     if Nat.eqb s.cnt O
     then Some (wA s a0 (set_pc x T1))
     else Some (wA s a0 (set_pc x (fail_pc o)))
   | T1 ->
     if Nat.eqb s.cnt O
     then Some
            (wA (wH (wC s (S O)) (HA a0) ((Some a0) :: s.ent)) a0
              (set_pc x (got_pc o)))
     else Some (wA s a0 (set_pc x (fail_pc o)))
   | L1 ->
     let n = s.nextb in
     Some
     (wA (wB (wQ s (app s.q (n :: [])) (S n)) n (fresh a0)) a0 { apc = L2;
       aop = o; ab = n; aw = x.aw; actx = x.actx; afor = x.afor })
   | L2 ->
     if Nat.eqb s.cnt O
     then Some
            (wA (wH (wC s (S O)) (HA a0) ((Some a0) :: s.ent)) a0
              (set_pcx x H1 RPark x.afor))
     else Some
            (wA (wH (wC s (S s.cnt)) s.holder ((Some a0) :: s.ent)) a0
              (set_pc x PK))
   | H1 ->
     (match s.q with
      | [] -> None
      | v :: q' ->
        Some
          (wA (wQ s q' s.nextb) a0 { apc = H2; aop = o; ab = x.ab; aw = v;
            actx = x.actx; afor = x.afor }))
   | H2 ->
     Some
       (wA
         (wH
           (wB s x.aw { tok = w.tok; unp = true; rel = w.rel; owner =
             w.owner; ag = a0 }) (HB x.aw) s.ent) a0 (set_pc x H3))
   | H3 ->
     Some
       (wA
         (wB s x.aw { tok = true; unp = w.unp; rel = w.rel; owner = w.owner;
           ag = w.ag }) a0 (set_pc x H4))
   | H4 ->
     if w.rel
     then Some
            (wA
              (wH
                (wB s x.aw { tok = w.tok; unp = w.unp; rel = false; owner =
                  w.owner; ag = w.ag }) (HA a0) s.ent) a0
              (set_pcx x U0 x.actx (Some w.owner)))
     else Some (wA s a0 (set_pc x (ret_pc x.actx o)))
   | U0 ->
     if Nat.ltb (S O) s.cnt
     then Some
            (wA
              (wH (wC s (sub s.cnt (S O))) s.holder
                (remove oeq_dec x.afor s.ent)) a0 (set_pc x H1))
     else Some
            (wA
              (wH (wC s (sub s.cnt (S O))) HNone
                (remove oeq_dec x.afor s.ent)) a0
              (set_pc x (ret_pc x.actx o)))
   | PK ->
     if b.tok
     then Some
            (wA
              (wH
                (wB s x.ab { tok = false; unp = b.unp; rel = b.rel; owner =
                  b.owner; ag = b.ag }) (HA a0) s.ent) a0
              (set_pc x (got_pc o)))
     else None
   | C1 ->
     if b.unp
     then Some (wA (wH s (HA a0) s.ent) a0 (set_pcx x U0 RExit (Some a0)))
     else Some (wA s a0 (set_pc x C2))
   | C2 ->
     Some
       (wA
         (wB s x.ab { tok = b.tok; unp = b.unp; rel = true; owner = b.owner;
           ag = b.ag }) a0 (set_pc x C3))
   | C3 ->
     if b.unp
     then Some (wA s a0 (set_pc x C4))
     else Some (wA s a0 (set_pc x (exit_pc o)))
   | C4 ->
     if b.rel
     then Some
            (wA
              (wH
                (wB s x.ab { tok = b.tok; unp = b.unp; rel = false; owner =
                  b.owner; ag = b.ag }) (HA a0) s.ent) a0
              (set_pcx x U0 RExit (Some a0)))
     else Some (wA s a0 (set_pc x (exit_pc o)))
   | GW -> Some (wA s a0 (set_pc x HoldW))
   | RG ->
     let r' = Z.modulo (Z.add s.r (Zpos XH)) wd in
     let s1 =
       wR s r' (a0 :: s.rdl) ((||) s.ovf (Z.eqb s.r (Z.sub wd (Zpos XH))))
     in
     if Z.eqb s.r Z0
     then Some
            (wA (wH s1 HG (None :: (remove oeq_dec (Some a0) s.ent))) a0
              (set_pc x RUh))
     else Some (wA s1 a0 (set_pc x RUh))
   | RUh -> Some (wA (wL s None) a0 (set_pc x HoldR))
   | RUi -> Some (wA (wL s None) a0 (set_pc x Idle))
   | RUx -> Some (wA (wL s None) a0 (set_pc x Exit))
   | DWP -> Some (wA (wP s true) a0 (set_pcx x U0 RDoneW (Some a0)))
   | DR0 ->
     (match s.rl with
      | Some _ -> None
      | None ->
        let r' = Z.modulo (Z.sub s.r (Zpos XH)) wd in
        let s1 = wR (wL s (Some a0)) r' (remove Nat.eq_dec a0 s.rdl) s.ovf in
        if Z.eqb r' Z0
        then Some (wA (wH s1 (HA a0) s.ent) a0 (set_pcx x U0 RDoneR None))
        else Some (wA s1 a0 (set_pc x RUi)))
   | _ -> None)
| Busy a0 ->
  let x = s.a a0 in
  (match x.apc with
   | RL ->
     (match x.aop with
      | OTryRead -> Some (wA s a0 (set_pc x Idle))
      | _ -> None)
   | _ -> None)
| Abort a0 ->
  let x = s.a a0 in
  let b = s.bk x.ab in
  (match x.apc with
   | RL ->
     (match x.aop with
      | ORead -> Some (wA s a0 (set_pc x Exit))
      | _ -> None)
   | PK ->
     Some
       (wA
         (wB s x.ab { tok = false; unp = b.unp; rel = b.rel; owner = b.owner;
           ag = b.ag }) a0 (set_pc x C1))
   | _ -> None)
| Drop a0 ->
  let x = s.a a0 in
  (match x.apc with
   | HoldW -> Some (wA s a0 (set_pcx x U0 RDoneW (Some a0)))
   | HoldR -> Some (wA s a0 (set_pc x DR0))
   | _ -> None)
| Panic a0 ->
  let x = s.a a0 in
  (match x.apc with
   | HoldW -> Some (wA s a0 (set_pc x DWP))
   | _ -> None)

(** val act0 : act **)

let act0 =
  { apc = Idle; aop = OWrite; ab = O; aw = O; actx = RDoneW; afor = None }

(** val init : bool -> st **)

let init p =
  { cnt = O; q = []; nextb = (S O); rl = None; r = Z0; pois = p; a =
    (fun _ -> act0); bk = (fun _ -> fresh O); holder = HNone; ent = []; rdl =
    []; ovf = false }

type ast = { ms : st; chain : nat list; pend : nat list; pobj : z; robj : 
             z; gens : nat list }

(** val pc_eqb : pc -> pc -> bool **)

let pc_eqb a0 b =
  match a0 with
  | Idle -> (match b with
             | Idle -> true
             | _ -> false)
  | Exit -> (match b with
             | Exit -> true
             | _ -> false)
  | RL -> (match b with
           | RL -> true
           | _ -> false)
  | T0 -> (match b with
           | T0 -> true
           | _ -> false)
  | T1 -> (match b with
           | T1 -> true
           | _ -> false)
  | L1 -> (match b with
           | L1 -> true
           | _ -> false)
  | L2 -> (match b with
           | L2 -> true
           | _ -> false)
  | H1 -> (match b with
           | H1 -> true
           | _ -> false)
  | H2 -> (match b with
           | H2 -> true
           | _ -> false)
  | H3 -> (match b with
           | H3 -> true
           | _ -> false)
  | H4 -> (match b with
           | H4 -> true
           | _ -> false)
  | U0 -> (match b with
           | U0 -> true
           | _ -> false)
  | PK -> (match b with
           | PK -> true
           | _ -> false)
  | C1 -> (match b with
           | C1 -> true
           | _ -> false)
  | C2 -> (match b with
           | C2 -> true
           | _ -> false)
  | C3 -> (match b with
           | C3 -> true
           | _ -> false)
  | C4 -> (match b with
           | C4 -> true
           | _ -> false)
  | GW -> (match b with
           | GW -> true
           | _ -> false)
  | RG -> (match b with
           | RG -> true
           | _ -> false)
  | RUh -> (match b with
            | RUh -> true
            | _ -> false)
  | RUi -> (match b with
            | RUi -> true
            | _ -> false)
  | RUx -> (match b with
            | RUx -> true
            | _ -> false)
  | HoldW -> (match b with
              | HoldW -> true
              | _ -> false)
  | HoldR -> (match b with
              | HoldR -> true
              | _ -> false)
  | DWP -> (match b with
            | DWP -> true
            | _ -> false)
  | DR0 -> (match b with
            | DR0 -> true
            | _ -> false)

(** val op_eqb : op -> op -> bool **)

let op_eqb a0 b =
  match a0 with
  | ORead -> (match b with
              | ORead -> true
              | _ -> false)
  | OTryRead -> (match b with
                 | OTryRead -> true
                 | _ -> false)
  | OWrite -> (match b with
               | OWrite -> true
               | _ -> false)
  | OTryWrite -> (match b with
                  | OTryWrite -> true
                  | _ -> false)

(** val mem : nat -> nat list -> bool **)

let mem a0 l =
  existsb (Nat.eqb a0) l

(** val del : nat -> nat list -> nat list **)

let del a0 l =
  filter (fun x -> negb (Nat.eqb a0 x)) l

(** val znz : z -> bool **)

let znz v =
  negb (Z.eqb v Z0)

type ek =
| KCall
| KRet
| KDrop
| KDropped
| KPanic
| KExit
| KTok
| KLoad
| KCas
| KPush
| KAdd
| KPopL
| KSub
| KPopU
| KPGet
| KPDone
| KIsUnp
| KSetRel
| KTakeRel
| KUnpStore
| KRCas
| KRAdd
| KRSub
| KRQueue

(** val kind_of : z -> ek option **)

let kind_of = function
| Zpos p ->
  (match p with
   | XI p0 ->
     (match p0 with
      | XI p1 ->
        (match p1 with
         | XI p2 ->
           (match p2 with
            | XI p3 -> (match p3 with
                        | XH -> Some KSetRel
                        | _ -> None)
            | XO _ -> None
            | XH -> Some KSub)
         | XO p2 ->
           (match p2 with
            | XI p3 ->
              (match p3 with
               | XO p4 -> (match p4 with
                           | XH -> Some KRQueue
                           | _ -> None)
               | _ -> None)
            | XO _ -> None
            | XH -> Some KCas)
         | XH -> Some KTok)
      | XO p1 ->
        (match p1 with
         | XI p2 ->
           (match p2 with
            | XI _ -> None
            | XO p3 -> (match p3 with
                        | XH -> Some KPDone
                        | _ -> None)
            | XH -> Some KAdd)
         | XO p2 ->
           (match p2 with
            | XI p3 ->
              (match p3 with
               | XO p4 -> (match p4 with
                           | XH -> Some KRAdd
                           | _ -> None)
               | _ -> None)
            | XO p3 ->
              (match p3 with
               | XO p4 -> (match p4 with
                           | XH -> Some KUnpStore
                           | _ -> None)
               | _ -> None)
            | XH -> None)
         | XH -> Some KPanic)
      | XH -> Some KDrop)
   | XO p0 ->
     (match p0 with
      | XI p1 ->
        (match p1 with
         | XI p2 ->
           (match p2 with
            | XI p3 -> (match p3 with
                        | XH -> Some KIsUnp
                        | _ -> None)
            | XO _ -> None
            | XH -> Some KPopL)
         | XO p2 ->
           (match p2 with
            | XI p3 ->
              (match p3 with
               | XO p4 -> (match p4 with
                           | XH -> Some KRSub
                           | _ -> None)
               | _ -> None)
            | XO p3 ->
              (match p3 with
               | XO p4 -> (match p4 with
                           | XH -> Some KTok
                           | _ -> None)
               | _ -> None)
            | XH -> Some KLoad)
         | XH -> Some KExit)
      | XO p1 ->
        (match p1 with
         | XI p2 ->
           (match p2 with
            | XI _ -> None
            | XO p3 -> (match p3 with
                        | XH -> Some KPGet
                        | _ -> None)
            | XH -> Some KPush)
         | XO p2 ->
           (match p2 with
            | XI p3 ->
              (match p3 with
               | XO p4 -> (match p4 with
                           | XH -> Some KRCas
                           | _ -> None)
               | _ -> None)
            | XO p3 ->
              (match p3 with
               | XI _ -> None
               | XO p4 -> (match p4 with
                           | XH -> Some KTakeRel
                           | _ -> None)
               | XH -> Some KPopU)
            | XH -> None)
         | XH -> Some KDropped)
      | XH -> Some KRet)
   | XH -> Some KCall)
| _ -> None

(** val op_of : z -> op option **)

let op_of = function
| Zpos p ->
  (match p with
   | XI p0 -> (match p0 with
               | XH -> Some OWrite
               | _ -> None)
   | XO p0 ->
     (match p0 with
      | XI _ -> None
      | XO p1 -> (match p1 with
                  | XH -> Some OTryWrite
                  | _ -> None)
      | XH -> Some OTryRead)
   | XH -> Some ORead)
| _ -> None

(** val with_ms : ast -> st -> ast **)

let with_ms t s =
  { ms = s; chain = t.chain; pend = t.pend; pobj = t.pobj; robj = t.robj;
    gens = t.gens }

(** val with_chain : ast -> nat list -> ast **)

let with_chain t l =
  { ms = t.ms; chain = l; pend = t.pend; pobj = t.pobj; robj = t.robj; gens =
    t.gens }

(** val with_pend : ast -> nat list -> ast **)

let with_pend t l =
  { ms = t.ms; chain = t.chain; pend = l; pobj = t.pobj; robj = t.robj;
    gens = t.gens }

(** val with_gens : ast -> nat list -> ast **)

let with_gens t l =
  { ms = t.ms; chain = t.chain; pend = t.pend; pobj = t.pobj; robj = t.robj;
    gens = l }

(** val take : ast -> bool -> action -> (st -> bool) -> ast option **)

let take t pre ac post =
  if pre
  then (match step t.ms ac with
        | Some s' -> if post s' then Some (with_ms t s') else None
        | None -> None)
  else None

(** val observe : ast -> bool -> ast option **)

let observe t = function
| true -> Some t
| false -> None

(** val learn_p : ast -> z -> ast option **)

let learn_p t o =
  if Z.eqb t.pobj Z0
  then Some { ms = t.ms; chain = t.chain; pend = t.pend; pobj = o; robj =
         t.robj; gens = t.gens }
  else if Z.eqb t.pobj o then Some t else None

(** val learn_r : ast -> z -> ast option **)

let learn_r t o =
  if Z.eqb t.robj Z0
  then Some { ms = t.ms; chain = t.chain; pend = t.pend; pobj = t.pobj;
         robj = o; gens = t.gens }
  else if Z.eqb t.robj o then Some t else None

(** val bind : ast option -> (ast -> ast option) -> ast option **)

let bind x f =
  match x with
  | Some t -> f t
  | None -> None

(** val at_rl : pc -> bool **)

let at_rl = function
| RL -> true
| DR0 -> true
| _ -> false

(** val at_ru : pc -> bool **)

let at_ru = function
| RUh -> true
| RUi -> true
| RUx -> true
| _ -> false

(** val zcnt : st -> z **)

let zcnt s =
  Z.of_nat s.cnt

(** val accept_kind : ast -> ek -> nat -> z -> z -> ast option **)

let accept_kind t k a0 obj v =
  let s = t.ms in
  let x = s.a a0 in
  let p = x.apc in
  let o = x.aop in
  let b = s.bk x.ab in
  let w = s.bk x.aw in
  (match k with
   | KCall ->
     (match op_of v with
      | Some o' -> take t true (Call (a0, o')) (fun _ -> true)
      | None -> None)
   | KRet ->
     observe t
       (if Z.eqb v Z0
        then pc_eqb p Idle
        else if is_read o then pc_eqb p HoldR else pc_eqb p HoldW)
   | KDrop ->
     if pc_eqb p DWP then Some t else take t true (Drop a0) (fun _ -> true)
   | KDropped -> observe (with_chain t (del a0 t.chain)) (pc_eqb p Idle)
   | KPanic -> take t true (Panic a0) (fun _ -> true)
   | KExit ->
     if pc_eqb p RL
     then take t (znz v) (Abort a0) (fun _ -> true)
     else observe t ((||) (pc_eqb p Idle) ((&&) (pc_eqb p Exit) (znz v)))
   | KTok ->
     if mem a0 t.chain
     then Some t
     else if pc_eqb p H3
          then take t true (Step a0) (fun _ -> true)
          else Some t
   | KLoad ->
     take t ((&&) (pc_eqb p T0) (Z.eqb (zcnt s) v)) (Step a0) (fun _ -> true)
   | KCas ->
     take t ((&&) (pc_eqb p T1) (eqb (Nat.eqb s.cnt O) (znz v))) (Step a0)
       (fun _ -> true)
   | KPush -> take t (pc_eqb p L1) (Step a0) (fun _ -> true)
   | KAdd ->
     take t ((&&) (pc_eqb p L2) (Z.eqb (zcnt s) v)) (Step a0) (fun _ -> true)
   | KPopL ->
     take t ((&&) ((&&) (pc_eqb p H1) (isRPark x.actx)) (znz v)) (Step a0)
       (fun _ -> true)
   | KSub ->
     take t ((&&) (pc_eqb p U0) (Z.eqb (zcnt s) v)) (Step a0) (fun _ -> true)
   | KPopU ->
     take t ((&&) ((&&) (pc_eqb p H1) (negb (isRPark x.actx))) (znz v)) (Step
       a0) (fun _ -> true)
   | KPGet ->
     if mem a0 t.pend
     then learn_r (with_pend t (del a0 t.pend)) obj
     else if at_rl p
          then bind (learn_r t obj) (fun t1 ->
                 take t1 true (Step a0) (fun _ -> true))
          else if pc_eqb p PK
               then bind (learn_p t obj) (fun t1 ->
                      bind
                        (take t1 true (Step a0) (fun s1 ->
                          (||) (pc_eqb (s1.a a0).apc GW)
                            (pc_eqb (s1.a a0).apc RG))) (fun t2 ->
                        take t2 (eqb t2.ms.pois (znz v)) (Step a0) (fun _ ->
                          true)))
               else if (||) (pc_eqb p GW) (pc_eqb p RG)
                    then bind (learn_p t obj) (fun t1 ->
                           take t1 (eqb s.pois (znz v)) (Step a0) (fun _ ->
                             true))
                    else bind (learn_p t obj) (fun t1 ->
                           observe t1
                             ((&&)
                               ((||) ((||) (pc_eqb p Idle) (pc_eqb p HoldW))
                                 (pc_eqb p HoldR)) (eqb s.pois (znz v))))
   | KPDone -> take t ((&&) (pc_eqb p DWP) (znz v)) (Step a0) (fun _ -> true)
   | KIsUnp ->
     if at_rl p
     then Some t
     else if pc_eqb p PK
          then bind (take t true (Abort a0) (fun _ -> true)) (fun t1 ->
                 take t1 (eqb (t1.ms.bk (t1.ms.a a0).ab).unp (znz v)) (Step
                   a0) (fun _ -> true))
          else take t
                 ((&&) ((||) (pc_eqb p C1) (pc_eqb p C3)) (eqb b.unp (znz v)))
                 (Step a0) (fun _ -> true)
   | KSetRel ->
     if at_rl p
     then Some t
     else take t (pc_eqb p C2) (Step a0) (fun _ -> true)
   | KTakeRel ->
     if mem a0 t.chain
     then Some (if znz v then t else with_chain t (del a0 t.chain))
     else if at_rl p
          then Some t
          else if pc_eqb p H4
               then take t (eqb w.rel (znz v)) (Step a0) (fun _ -> true)
               else take t ((&&) (pc_eqb p C4) (eqb b.rel (znz v))) (Step a0)
                      (fun _ -> true)
   | KUnpStore ->
     if mem a0 t.chain
     then Some t
     else if at_rl p
          then Some t
          else take t (pc_eqb p H2) (Step a0) (fun _ -> true)
   | KRCas ->
     if at_rl p
     then if znz v
          then take (with_pend t (a0 :: t.pend)) true (Step a0) (fun _ ->
                 true)
          else if (&&) (pc_eqb p RL) (op_eqb o OTryRead)
               then take t true (Busy a0) (fun _ -> true)
               else Some t
     else None
   | KRAdd -> observe t (at_rl p)
   | KRSub ->
     if mem a0 t.chain
     then Some
            (if Z.ltb (Zpos XH) v then t else with_chain t (del a0 t.chain))
     else if at_rl p
          then Some t
          else take
                 (if Z.ltb (Zpos XH) v
                  then with_chain t (a0 :: t.chain)
                  else t) (at_ru p) (Step a0) (fun _ -> true)
   | KRQueue -> observe t ((||) (at_rl p) (mem a0 t.chain)))

(** val gen_of : ast -> nat -> nat **)

let gen_of t a0 =
  count_occ Nat.eq_dec t.gens a0

(** val mactor : ast -> nat -> nat **)

let mactor t a0 =
  add a0
    (mul (S (S (S (S (S (S (S (S (S (S (S (S (S (S (S (S (S (S (S (S (S (S (S
      (S (S (S (S (S (S (S (S (S (S (S (S (S (S (S (S (S (S (S (S (S (S (S (S
      (S (S (S (S (S (S (S (S (S (S (S (S (S (S (S (S (S
      O))))))))))))))))))))))))))))))))))))))))))))))))))))))))))))))))
      (gen_of t a0))

(** val accept_ev : ast -> z list -> ast option **)

let accept_ev t = function
| [] -> None
| c :: l ->
  (match l with
   | [] -> None
   | a0 :: l0 ->
     (match l0 with
      | [] -> None
      | obj :: l1 ->
        (match l1 with
         | [] -> None
         | v :: l2 ->
           (match l2 with
            | [] ->
              let a1 = Z.to_nat a0 in
              (match kind_of c with
               | Some k ->
                 (match k with
                  | KCall ->
                    let t1 =
                      if pc_eqb (t.ms.a (mactor t a1)).apc Exit
                      then with_gens t (a1 :: t.gens)
                      else t
                    in
                    accept_kind t1 KCall (mactor t1 a1) obj v
                  | _ -> accept_kind t k (mactor t a1) obj v)
               | None -> None)
            | _ :: _ -> None))))

(** val ainit : bool -> ast **)

let ainit p =
  { ms = (init p); chain = []; pend = []; pobj = Z0; robj = Z0; gens = [] }

(** val final_ok : ast -> bool **)

let final_ok t =
  let s = t.ms in
  (&&)
    ((&&)
      ((&&) ((&&) ((&&) (negb s.ovf) (Nat.eqb s.cnt O)) (Z.eqb s.r Z0))
        (match s.rl with
         | Some _ -> false
         | None -> true)) (match s.q with
                           | [] -> true
                           | _ :: _ -> false))
    (match s.ent with
     | [] -> true
     | _ :: _ -> false)

(** val m_init : ast **)

let m_init =
  ainit false

(** val m_accept : ast -> z list -> ast option **)

let m_accept =
  accept_ev

(** val m_final : ast -> bool **)

let m_final =
  final_ok
