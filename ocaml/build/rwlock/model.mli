
val negb : bool -> bool

type nat =
| O
| S of nat

val app : 'a1 list -> 'a1 list -> 'a1 list

type comparison =
| Eq
| Lt
| Gt

val compOpp : comparison -> comparison

val add : nat -> nat -> nat

val mul : nat -> nat -> nat

val sub : nat -> nat -> nat

val eqb : bool -> bool -> bool

module Nat :
 sig
  val eqb : nat -> nat -> bool

  val leb : nat -> nat -> bool

  val ltb : nat -> nat -> bool

  val eq_dec : nat -> nat -> bool
 end

val remove : ('a1 -> 'a1 -> bool) -> 'a1 -> 'a1 list -> 'a1 list

val count_occ : ('a1 -> 'a1 -> bool) -> 'a1 list -> 'a1 -> nat

val existsb : ('a1 -> bool) -> 'a1 list -> bool

val filter : ('a1 -> bool) -> 'a1 list -> 'a1 list

type positive =
| XI of positive
| XO of positive
| XH

type z =
| Z0
| Zpos of positive
| Zneg of positive

module Pos :
 sig
  val succ : positive -> positive

  val add : positive -> positive -> positive

  val add_carry : positive -> positive -> positive

  val pred_double : positive -> positive

  val mul : positive -> positive -> positive

  val iter : ('a1 -> 'a1) -> 'a1 -> positive -> 'a1

  val compare_cont : comparison -> positive -> positive -> comparison

  val compare : positive -> positive -> comparison

  val eqb : positive -> positive -> bool

  val iter_op : ('a1 -> 'a1 -> 'a1) -> positive -> 'a1 -> 'a1

  val to_nat : positive -> nat

  val of_succ_nat : nat -> positive
 end

module Z :
 sig
  val double : z -> z

  val succ_double : z -> z

  val pred_double : z -> z

  val pos_sub : positive -> positive -> z

  val add : z -> z -> z

  val opp : z -> z

  val sub : z -> z -> z

  val mul : z -> z -> z

  val pow_pos : z -> positive -> z

  val pow : z -> z -> z

  val compare : z -> z -> comparison

  val leb : z -> z -> bool

  val ltb : z -> z -> bool

  val eqb : z -> z -> bool

  val to_nat : z -> nat

  val of_nat : nat -> z

  val pos_div_eucl : positive -> z -> z * z

  val div_eucl : z -> z -> z * z

  val modulo : z -> z -> z
 end

val wd : z

type op =
| ORead
| OTryRead
| OWrite
| OTryWrite

val is_read : op -> bool

type pc =
| Idle
| Exit
| RL
| T0
| T1
| L1
| L2
| H1
| H2
| H3
| H4
| U0
| PK
| C1
| C2
| C3
| C4
| GW
| RG
| RUh
| RUi
| RUx
| HoldW
| HoldR
| DWP
| DR0

type ctx =
| RPark
| RDoneW
| RDoneR
| RExit

type hold =
| HNone
| HA of nat
| HB of nat
| HG

type act = { apc : pc; aop : op; ab : nat; aw : nat; actx : ctx;
             afor : nat option }

type blk = { tok : bool; unp : bool; rel : bool; owner : nat; ag : nat }

type st = { cnt : nat; q : nat list; nextb : nat; rl : nat option; r : 
            z; pois : bool; a : (nat -> act); bk : (nat -> blk);
            holder : hold; ent : nat option list; rdl : nat list; ovf : 
            bool }

val upd : (nat -> 'a1) -> nat -> 'a1 -> nat -> 'a1

val oeq_dec : nat option -> nat option -> bool

val wA : st -> nat -> act -> st

val wB : st -> nat -> blk -> st

val wC : st -> nat -> st

val wQ : st -> nat list -> nat -> st

val wH : st -> hold -> nat option list -> st

val wL : st -> nat option -> st

val wR : st -> z -> nat list -> bool -> st

val wP : st -> bool -> st

val set_pc : act -> pc -> act

val set_pcx : act -> pc -> ctx -> nat option -> act

val fresh : nat -> blk

val isRPark : ctx -> bool

val fail_pc : op -> pc

val got_pc : op -> pc

val exit_pc : op -> pc

val ret_pc : ctx -> op -> pc

type action =
| Call of nat * op
| Step of nat
| Busy of nat
| Abort of nat
| Drop of nat
| Panic of nat

val step : st -> action -> st option

val act0 : act

val init : bool -> st

type ast = { ms : st; chain : nat list; pend : nat list; pobj : z; robj : 
             z; gens : nat list }

val pc_eqb : pc -> pc -> bool

val op_eqb : op -> op -> bool

val mem : nat -> nat list -> bool

val del : nat -> nat list -> nat list

val znz : z -> bool

type ek =
| KCall
| KRet
| KDrop
| KDropped
| KPanic
| KExit
| KTok
| KLoad
| KCas
| KPush
| KAdd
| KPopL
| KSub
| KPopU
| KPGet
| KPDone
| KIsUnp
| KSetRel
| KTakeRel
| KUnpStore
| KRCas
| KRAdd
| KRSub
| KRQueue

val kind_of : z -> ek option

val op_of : z -> op option

val with_ms : ast -> st -> ast

val with_chain : ast -> nat list -> ast

val with_pend : ast -> nat list -> ast

val with_gens : ast -> nat list -> ast

val take : ast -> bool -> action -> (st -> bool) -> ast option

val observe : ast -> bool -> ast option

val learn_p : ast -> z -> ast option

val learn_r : ast -> z -> ast option

val bind : ast option -> (ast -> ast option) -> ast option

val at_rl : pc -> bool

val at_ru : pc -> bool

val zcnt : st -> z

val accept_kind : ast -> ek -> nat -> z -> z -> ast option

val gen_of : ast -> nat -> nat

val mactor : ast -> nat -> nat

val accept_ev : ast -> z list -> ast option

val ainit : bool -> ast

val final_ok : ast -> bool

val m_init : ast

val m_accept : ast -> z list -> ast option

val m_final : ast -> bool
