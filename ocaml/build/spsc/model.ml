
(** val negb : bool -> bool **)

let negb = function
| true -> false
| false -> true

type nat =
| O
| S of nat

(** val option_map : ('a1 -> 'a2) -> 'a1 option -> 'a2 option **)

let option_map f0 = function
| Some a -> Some (f0 a)
| None -> None

(** val fst : ('a1 * 'a2) -> 'a1 **)

let fst = function
| (x, _) -> x

(** val snd : ('a1 * 'a2) -> 'a2 **)

let snd = function
| (_, y) -> y

(** val length : 'a1 list -> nat **)

let rec length = function
| [] -> O
| _ :: l' -> S (length l')

(** val app : 'a1 list -> 'a1 list -> 'a1 list **)

let rec app l m0 =
  match l with
  | [] -> m0
  | a :: l1 -> a :: (app l1 m0)

type comparison =
| Eq
| Lt
| Gt

(** val compOpp : comparison -> comparison **)

let compOpp = function
| Eq -> Eq
| Lt -> Gt
| Gt -> Lt

(** val add : nat -> nat -> nat **)

let rec add n m0 =
  match n with
  | O -> m0
  | S p0 -> S (add p0 m0)

(** val mul : nat -> nat -> nat **)

let rec mul n m0 =
  match n with
  | O -> O
  | S p0 -> add m0 (mul p0 m0)

(** val sub : nat -> nat -> nat **)

let rec sub n m0 =
  match n with
  | O -> n
  | S k0 -> (match m0 with
             | O -> n
             | S l -> sub k0 l)

(** val eqb : bool -> bool -> bool **)

let eqb b1 b2 =
  if b1 then b2 else if b2 then false else true

module Nat =
 struct
  (** val sub : nat -> nat -> nat **)

  let rec sub n m0 =
    match n with
    | O -> n
    | S k0 -> (match m0 with
               | O -> n
               | S l -> sub k0 l)

  (** val eqb : nat -> nat -> bool **)

  let rec eqb n m0 =
    match n with
    | O -> (match m0 with
            | O -> true
            | S _ -> false)
    | S n' -> (match m0 with
               | O -> false
               | S m' -> eqb n' m')

  (** val leb : nat -> nat -> bool **)

  let rec leb n m0 =
    match n with
    | O -> true
    | S n' -> (match m0 with
               | O -> false
               | S m' -> leb n' m')

  (** val ltb : nat -> nat -> bool **)

  let ltb n m0 =
    leb (S n) m0

  (** val min : nat -> nat -> nat **)

  let rec min n m0 =
    match n with
    | O -> O
    | S n' -> (match m0 with
               | O -> O
               | S m' -> S (min n' m'))

  (** val divmod : nat -> nat -> nat -> nat -> nat * nat **)

  let rec divmod x y q0 u =
    match x with
    | O -> (q0, u)
    | S x' ->
      (match u with
       | O -> divmod x' y (S q0) y
       | S u' -> divmod x' y q0 u')

  (** val div : nat -> nat -> nat **)

  let div x y = match y with
  | O -> y
  | S y' -> fst (divmod x y' O y')

  (** val modulo : nat -> nat -> nat **)

  let modulo x = function
  | O -> x
  | S y' -> sub y' (snd (divmod x y' O y'))
 end

(** val nth : nat -> 'a1 list -> 'a1 -> 'a1 **)

let rec nth n l default =
  match n with
  | O -> (match l with
          | [] -> default
          | x :: _ -> x)
  | S m0 -> (match l with
             | [] -> default
             | _ :: t -> nth m0 t default)

(** val existsb : ('a1 -> bool) -> 'a1 list -> bool **)

let rec existsb f0 = function
| [] -> false
| a :: l0 -> (||) (f0 a) (existsb f0 l0)

(** val firstn : nat -> 'a1 list -> 'a1 list **)

let rec firstn n l =
  match n with
  | O -> []
  | S n0 -> (match l with
             | [] -> []
             | a :: l0 -> a :: (firstn n0 l0))

(** val skipn : nat -> 'a1 list -> 'a1 list **)

let rec skipn n l =
  match n with
  | O -> l
  | S n0 -> (match l with
             | [] -> []
             | _ :: l0 -> skipn n0 l0)

(** val seq : nat -> nat -> nat list **)

let rec seq start = function
| O -> []
| S len0 -> start :: (seq (S start) len0)

(** val repeat : 'a1 -> nat -> 'a1 list **)

let rec repeat x = function
| O -> []
| S k0 -> x :: (repeat x k0)

type positive =
| XI of positive
| XO of positive
| XH

type z =
| Z0
| Zpos of positive
| Zneg of positive

module Pos =
 struct
  (** val succ : positive -> positive **)

  let rec succ = function
  | XI p0 -> XO (succ p0)
  | XO p0 -> XI p0
  | XH -> XO XH

  (** val compare_cont : comparison -> positive -> positive -> comparison **)

  let rec compare_cont r x y =
    match x with
    | XI p0 ->
      (match y with
       | XI q0 -> compare_cont r p0 q0
       | XO q0 -> compare_cont Gt p0 q0
       | XH -> Gt)
    | XO p0 ->
      (match y with
       | XI q0 -> compare_cont Lt p0 q0
       | XO q0 -> compare_cont r p0 q0
       | XH -> Gt)
    | XH -> (match y with
             | XH -> r
             | _ -> Lt)

  (** val compare : positive -> positive -> comparison **)

  let compare =
    compare_cont Eq

  (** val eqb : positive -> positive -> bool **)

  let rec eqb p0 q0 =
    match p0 with
    | XI p1 -> (match q0 with
                | XI q1 -> eqb p1 q1
                | _ -> false)
    | XO p1 -> (match q0 with
                | XO q1 -> eqb p1 q1
                | _ -> false)
    | XH -> (match q0 with
             | XH -> true
             | _ -> false)

  (** val iter_op : ('a1 -> 'a1 -> 'a1) -> positive -> 'a1 -> 'a1 **)

  let rec iter_op op0 p0 a =
    match p0 with
    | XI p1 -> op0 a (iter_op op0 p1 (op0 a a))
    | XO p1 -> iter_op op0 p1 (op0 a a)
    | XH -> a

  (** val to_nat : positive -> nat **)

  let to_nat x =
    iter_op add x (S O)

  (** val of_succ_nat : nat -> positive **)

  let rec of_succ_nat = function
  | O -> XH
  | S x -> succ (of_succ_nat x)
 end

module Z =
 struct
  (** val compare : z -> z -> comparison **)

  let compare x y =
    match x with
    | Z0 -> (match y with
             | Z0 -> Eq
             | Zpos _ -> Lt
             | Zneg _ -> Gt)
    | Zpos x' -> (match y with
                  | Zpos y' -> Pos.compare x' y'
                  | _ -> Gt)
    | Zneg x' ->
      (match y with
       | Zneg y' -> compOpp (Pos.compare x' y')
       | _ -> Lt)

  (** val leb : z -> z -> bool **)

  let leb x y =
    match compare x y with
    | Gt -> false
    | _ -> true

  (** val ltb : z -> z -> bool **)

  let ltb x y =
    match compare x y with
    | Lt -> true
    | _ -> false

  (** val eqb : z -> z -> bool **)

  let eqb x y =
    match x with
    | Z0 -> (match y with
             | Z0 -> true
             | _ -> false)
    | Zpos p0 -> (match y with
                  | Zpos q0 -> Pos.eqb p0 q0
                  | _ -> false)
    | Zneg p0 -> (match y with
                  | Zneg q0 -> Pos.eqb p0 q0
                  | _ -> false)

  (** val to_nat : z -> nat **)

  let to_nat = function
  | Zpos p0 -> Pos.to_nat p0
  | _ -> O

  (** val of_nat : nat -> z **)

  let of_nat = function
  | O -> Z0
  | S n0 -> Zpos (Pos.of_succ_nat n0)
 end

type ppc =
| PIdle
| PWrite
| PRec1
| PRdHead
| PStLH
| PRec2
| PLink
| PSetT
| PPub
| PLenH
| PLenT

type cpc =
| CIdle
| CTail
| CRead
| CNext
| CSetH
| CCommit
| CLenH
| CLenT

type op =
| OPop
| OBulk
| OPeek
| OLen

type mem = { tidx : nat; tblk : nat; hidx : nat; hblk : nat; first : 
             nat; lasth : nat; nxt : (nat -> nat);
             slot : (nat -> nat -> (nat * nat) option); nalloc : nat }

type prod0 = { pp : ppc; pv : nat; pnew : nat; plh : nat; plenh : nat;
               pres : nat }

type cons = { cp : cpc; cop : op; cpidx : nat; cend : nat; ck : nat;
              cacc : nat list; cnh : nat; clh : nat; cres : nat }

type gq = { absq : nat list; pushed : nat list; popped : nat list;
            glen0 : nat; glen0p : nat }

type gk = { bid : (nat -> nat); gfk : nat; glk : nat; gplk : nat; ghk : 
            nat; gtk : nat; gnb : nat }

type gm = { bad_fifo : bool; bad_none : bool; bad_read : bool;
            bad_recyc : bool; bad_over : bool; bad_null : bool;
            bad_len : bool; bad_lenp : bool }

type st = { m : mem; p : prod0; c : cons; q : gq; k : gk; f : gm }

(** val upd : (nat -> 'a1) -> nat -> 'a1 -> nat -> 'a1 **)

let upd f0 i v j =
  if Nat.eqb j i then v else f0 j

(** val upd2 :
    (nat -> nat -> 'a1) -> nat -> nat -> 'a1 -> nat -> nat -> 'a1 **)

let upd2 f0 b o v b' o' =
  if (&&) (Nat.eqb b' b) (Nat.eqb o' o) then v else f0 b' o'

(** val isnil : 'a1 list -> bool **)

let isnil = function
| [] -> true
| _ :: _ -> false

(** val list_eqb : nat list -> nat list -> bool **)

let rec list_eqb a b =
  match a with
  | [] -> (match b with
           | [] -> true
           | _ :: _ -> false)
  | x :: a' ->
    (match b with
     | [] -> false
     | y :: b' -> (&&) (Nat.eqb x y) (list_eqb a' b'))

(** val blkend : nat -> nat -> nat **)

let blkend b i =
  mul (add (Nat.div i b) (S O)) b

(** val at_end : nat -> nat -> bool **)

let at_end b i =
  Nat.eqb (Nat.modulo i b) O

(** val m_tidx : mem -> nat -> mem **)

let m_tidx m0 v =
  { tidx = v; tblk = m0.tblk; hidx = m0.hidx; hblk = m0.hblk; first =
    m0.first; lasth = m0.lasth; nxt = m0.nxt; slot = m0.slot; nalloc =
    m0.nalloc }

(** val m_tblk : mem -> nat -> mem **)

let m_tblk m0 v =
  { tidx = m0.tidx; tblk = v; hidx = m0.hidx; hblk = m0.hblk; first =
    m0.first; lasth = m0.lasth; nxt = m0.nxt; slot = m0.slot; nalloc =
    m0.nalloc }

(** val m_hidx : mem -> nat -> mem **)

let m_hidx m0 v =
  { tidx = m0.tidx; tblk = m0.tblk; hidx = v; hblk = m0.hblk; first =
    m0.first; lasth = m0.lasth; nxt = m0.nxt; slot = m0.slot; nalloc =
    m0.nalloc }

(** val m_hblk : mem -> nat -> mem **)

let m_hblk m0 v =
  { tidx = m0.tidx; tblk = m0.tblk; hidx = m0.hidx; hblk = v; first =
    m0.first; lasth = m0.lasth; nxt = m0.nxt; slot = m0.slot; nalloc =
    m0.nalloc }

(** val m_first : mem -> nat -> mem **)

let m_first m0 v =
  { tidx = m0.tidx; tblk = m0.tblk; hidx = m0.hidx; hblk = m0.hblk; first =
    v; lasth = m0.lasth; nxt = m0.nxt; slot = m0.slot; nalloc = m0.nalloc }

(** val m_lasth : mem -> nat -> mem **)

let m_lasth m0 v =
  { tidx = m0.tidx; tblk = m0.tblk; hidx = m0.hidx; hblk = m0.hblk; first =
    m0.first; lasth = v; nxt = m0.nxt; slot = m0.slot; nalloc = m0.nalloc }

(** val m_nxt : mem -> (nat -> nat) -> mem **)

let m_nxt m0 v =
  { tidx = m0.tidx; tblk = m0.tblk; hidx = m0.hidx; hblk = m0.hblk; first =
    m0.first; lasth = m0.lasth; nxt = v; slot = m0.slot; nalloc = m0.nalloc }

(** val m_slot : mem -> (nat -> nat -> (nat * nat) option) -> mem **)

let m_slot m0 v =
  { tidx = m0.tidx; tblk = m0.tblk; hidx = m0.hidx; hblk = m0.hblk; first =
    m0.first; lasth = m0.lasth; nxt = m0.nxt; slot = v; nalloc = m0.nalloc }

(** val m_nalloc : mem -> nat -> mem **)

let m_nalloc m0 v =
  { tidx = m0.tidx; tblk = m0.tblk; hidx = m0.hidx; hblk = m0.hblk; first =
    m0.first; lasth = m0.lasth; nxt = m0.nxt; slot = m0.slot; nalloc = v }

(** val p_pc : prod0 -> ppc -> prod0 **)

let p_pc p0 v =
  { pp = v; pv = p0.pv; pnew = p0.pnew; plh = p0.plh; plenh = p0.plenh;
    pres = p0.pres }

(** val p_new : prod0 -> nat -> prod0 **)

let p_new p0 v =
  { pp = p0.pp; pv = p0.pv; pnew = v; plh = p0.plh; plenh = p0.plenh; pres =
    p0.pres }

(** val p_lh : prod0 -> nat -> prod0 **)

let p_lh p0 v =
  { pp = p0.pp; pv = p0.pv; pnew = p0.pnew; plh = v; plenh = p0.plenh; pres =
    p0.pres }

(** val q_len0p : gq -> nat -> gq **)

let q_len0p q0 v =
  { absq = q0.absq; pushed = q0.pushed; popped = q0.popped; glen0 = q0.glen0;
    glen0p = v }

(** val c_pc : cons -> cpc -> cons **)

let c_pc c0 v =
  { cp = v; cop = c0.cop; cpidx = c0.cpidx; cend = c0.cend; ck = c0.ck;
    cacc = c0.cacc; cnh = c0.cnh; clh = c0.clh; cres = c0.cres }

(** val k_fk : gk -> nat -> gk **)

let k_fk k0 v =
  { bid = k0.bid; gfk = v; glk = k0.glk; gplk = k0.gplk; ghk = k0.ghk; gtk =
    k0.gtk; gnb = k0.gnb }

(** val k_lk : gk -> nat -> gk **)

let k_lk k0 v =
  { bid = k0.bid; gfk = k0.gfk; glk = v; gplk = k0.gplk; ghk = k0.ghk; gtk =
    k0.gtk; gnb = k0.gnb }

(** val k_plk : gk -> nat -> gk **)

let k_plk k0 v =
  { bid = k0.bid; gfk = k0.gfk; glk = k0.glk; gplk = v; ghk = k0.ghk; gtk =
    k0.gtk; gnb = k0.gnb }

(** val k_hk : gk -> nat -> gk **)

let k_hk k0 v =
  { bid = k0.bid; gfk = k0.gfk; glk = k0.glk; gplk = k0.gplk; ghk = v; gtk =
    k0.gtk; gnb = k0.gnb }

(** val k_tk : gk -> nat -> gk **)

let k_tk k0 v =
  { bid = k0.bid; gfk = k0.gfk; glk = k0.glk; gplk = k0.gplk; ghk = k0.ghk;
    gtk = v; gnb = k0.gnb }

(** val k_app : gk -> nat -> gk **)

let k_app k0 b =
  { bid = (upd k0.bid k0.gnb b); gfk = k0.gfk; glk = k0.glk; gplk = k0.gplk;
    ghk = k0.ghk; gtk = k0.gtk; gnb = (S k0.gnb) }

(** val f_fifo : gm -> bool -> gm **)

let f_fifo f0 b =
  { bad_fifo = ((||) f0.bad_fifo b); bad_none = f0.bad_none; bad_read =
    f0.bad_read; bad_recyc = f0.bad_recyc; bad_over = f0.bad_over; bad_null =
    f0.bad_null; bad_len = f0.bad_len; bad_lenp = f0.bad_lenp }

(** val f_none : gm -> bool -> gm **)

let f_none f0 b =
  { bad_fifo = f0.bad_fifo; bad_none = ((||) f0.bad_none b); bad_read =
    f0.bad_read; bad_recyc = f0.bad_recyc; bad_over = f0.bad_over; bad_null =
    f0.bad_null; bad_len = f0.bad_len; bad_lenp = f0.bad_lenp }

(** val f_read : gm -> bool -> gm **)

let f_read f0 b =
  { bad_fifo = f0.bad_fifo; bad_none = f0.bad_none; bad_read =
    ((||) f0.bad_read b); bad_recyc = f0.bad_recyc; bad_over = f0.bad_over;
    bad_null = f0.bad_null; bad_len = f0.bad_len; bad_lenp = f0.bad_lenp }

(** val f_recyc : gm -> bool -> gm **)

let f_recyc f0 b =
  { bad_fifo = f0.bad_fifo; bad_none = f0.bad_none; bad_read = f0.bad_read;
    bad_recyc = ((||) f0.bad_recyc b); bad_over = f0.bad_over; bad_null =
    f0.bad_null; bad_len = f0.bad_len; bad_lenp = f0.bad_lenp }

(** val f_over : gm -> bool -> gm **)

let f_over f0 b =
  { bad_fifo = f0.bad_fifo; bad_none = f0.bad_none; bad_read = f0.bad_read;
    bad_recyc = f0.bad_recyc; bad_over = ((||) f0.bad_over b); bad_null =
    f0.bad_null; bad_len = f0.bad_len; bad_lenp = f0.bad_lenp }

(** val f_null : gm -> bool -> gm **)

let f_null f0 b =
  { bad_fifo = f0.bad_fifo; bad_none = f0.bad_none; bad_read = f0.bad_read;
    bad_recyc = f0.bad_recyc; bad_over = f0.bad_over; bad_null =
    ((||) f0.bad_null b); bad_len = f0.bad_len; bad_lenp = f0.bad_lenp }

(** val f_len : gm -> bool -> gm **)

let f_len f0 b =
  { bad_fifo = f0.bad_fifo; bad_none = f0.bad_none; bad_read = f0.bad_read;
    bad_recyc = f0.bad_recyc; bad_over = f0.bad_over; bad_null = f0.bad_null;
    bad_len = ((||) f0.bad_len b); bad_lenp = f0.bad_lenp }

(** val f_lenp : gm -> bool -> gm **)

let f_lenp f0 b =
  { bad_fifo = f0.bad_fifo; bad_none = f0.bad_none; bad_read = f0.bad_read;
    bad_recyc = f0.bad_recyc; bad_over = f0.bad_over; bad_null = f0.bad_null;
    bad_len = f0.bad_len; bad_lenp = ((||) f0.bad_lenp b) }

(** val rdpos : st -> nat **)

let rdpos s =
  match s.c.cp with
  | CNext -> s.c.cend
  | CSetH -> s.c.cend
  | CCommit -> s.c.cend
  | _ -> s.m.hidx

(** val in_window : st -> nat -> bool **)

let in_window s b =
  existsb (fun k0 -> Nat.eqb (s.k.bid k0) b)
    (seq s.k.ghk (sub s.k.gnb s.k.ghk))

type action =
| Push of nat
| PLen
| PStep
| Pop
| Bulk
| Peek
| Len
| CStep

(** val recycle : st -> st **)

let recycle s =
  let m0 = s.m in
  { m = (m_first m0 (m0.nxt m0.first)); p =
  (p_pc (p_new s.p m0.first) PLink); c = s.c; q = s.q; k =
  (k_fk s.k (S s.k.gfk)); f =
  (f_null (f_recyc s.f (in_window s m0.first)) (Nat.eqb (m0.nxt m0.first) O)) }

(** val start_call : st -> op -> st option **)

let start_call s o =
  match s.c.cp with
  | CIdle ->
    Some { m = s.m; p = s.p; c = { cp =
      (match o with
       | OLen -> CLenH
       | _ -> CTail); cop = o; cpidx = O; cend = O; ck = O; cacc = []; cnh =
      O; clh = O; cres = O }; q = { absq = s.q.absq; pushed = s.q.pushed;
      popped = s.q.popped; glen0 = (length s.q.absq); glen0p = s.q.glen0p };
      k = s.k; f = s.f }
  | _ -> None

(** val step : nat -> st -> action -> st option **)

let step b s a =
  let m0 = s.m in
  let p0 = s.p in
  let c0 = s.c in
  let q0 = s.q in
  let k0 = s.k in
  let f0 = s.f in
  (match a with
   | Push v ->
     (match p0.pp with
      | PIdle ->
        Some { m = m0; p = { pp = PWrite; pv = v; pnew = O; plh = O; plenh =
          O; pres = O }; c = c0; q = q0; k = k0; f = f0 }
      | _ -> None)
   | PLen ->
     (match p0.pp with
      | PIdle ->
        Some { m = m0; p = { pp = PLenH; pv = p0.pv; pnew = O; plh = O;
          plenh = O; pres = O }; c = c0; q = (q_len0p q0 (length q0.absq));
          k = k0; f = f0 }
      | _ -> None)
   | PStep ->
     (match p0.pp with
      | PIdle -> None
      | PWrite ->
        let o = Nat.modulo m0.tidx b in
        let over =
          match m0.slot m0.tblk o with
          | Some p1 -> let (i, _) = p1 in Nat.leb (rdpos s) i
          | None -> false
        in
        Some { m =
        (m_slot m0 (upd2 m0.slot m0.tblk o (Some (m0.tidx, p0.pv)))); p =
        (p_pc p0
          (if at_end b (S m0.tidx)
           then if Nat.eqb m0.first m0.lasth then PRdHead else PRec1
           else PPub)); c = c0; q = q0; k = k0; f = (f_over f0 over) }
      | PRdHead ->
        Some { m = m0; p = (p_pc (p_lh p0 m0.hblk) PStLH); c = c0; q = q0;
          k = (k_plk k0 k0.ghk); f = f0 }
      | PStLH ->
        if Nat.eqb m0.first p0.plh
        then Some { m = (m_nalloc (m_lasth m0 p0.plh) (S m0.nalloc)); p =
               (p_pc (p_new p0 m0.nalloc) PLink); c = c0; q = q0; k =
               (k_lk k0 k0.gplk); f = f0 }
        else Some { m = (m_lasth m0 p0.plh); p = (p_pc p0 PRec2); c = c0; q =
               q0; k = (k_lk k0 k0.gplk); f = f0 }
      | PLink ->
        Some { m = (m_nxt m0 (upd m0.nxt m0.tblk p0.pnew)); p =
          (p_pc p0 PSetT); c = c0; q = q0; k = (k_app k0 p0.pnew); f = f0 }
      | PSetT ->
        Some { m = (m_tblk m0 p0.pnew); p = (p_pc p0 PPub); c = c0; q = q0;
          k = (k_tk k0 (S k0.gtk)); f = f0 }
      | PPub ->
        Some { m = (m_tidx m0 (S m0.tidx)); p = (p_pc p0 PIdle); c = c0; q =
          { absq = (app q0.absq (p0.pv :: [])); pushed =
          (app q0.pushed (p0.pv :: [])); popped = q0.popped; glen0 =
          q0.glen0; glen0p = q0.glen0p }; k = k0; f = f0 }
      | PLenH ->
        Some { m = m0; p = { pp = PLenT; pv = p0.pv; pnew = O; plh = O;
          plenh = m0.hidx; pres = O }; c = c0; q = q0; k = k0; f = f0 }
      | PLenT ->
        let r = sub m0.tidx p0.plenh in
        Some { m = m0; p = { pp = PIdle; pv = p0.pv; pnew = O; plh = O;
        plenh = p0.plenh; pres = r }; c = c0; q = q0; k = k0; f =
        (f_lenp f0 ((||) (Nat.ltb r (length q0.absq)) (Nat.ltb q0.glen0p r))) }
      | _ -> Some (recycle s))
   | Pop -> start_call s OPop
   | Bulk -> start_call s OBulk
   | Peek -> start_call s OPeek
   | Len -> start_call s OLen
   | CStep ->
     (match c0.cp with
      | CIdle -> None
      | CTail ->
        if Nat.eqb m0.hidx m0.tidx
        then Some { m = m0; p = p0; c = { cp = CIdle; cop = c0.cop; cpidx =
               m0.tidx; cend = m0.hidx; ck = m0.hidx; cacc = []; cnh = O;
               clh = O; cres = O }; q = q0; k = k0; f =
               (f_none f0 (negb (isnil q0.absq))) }
        else Some { m = m0; p = p0; c = { cp = CRead; cop = c0.cop; cpidx =
               m0.tidx; cend =
               (match c0.cop with
                | OBulk -> Nat.min m0.tidx (blkend b m0.hidx)
                | _ -> S m0.hidx); ck = m0.hidx; cacc = []; cnh = O; clh = O;
               cres = O }; q = q0; k = k0; f = f0 }
      | CRead ->
        let r =
          match m0.slot m0.hblk (Nat.modulo c0.ck b) with
          | Some p1 ->
            let (i, v) = p1 in if Nat.eqb i c0.ck then Some v else None
          | None -> None
        in
        let v = match r with
                | Some v -> v
                | None -> O in
        let bad = match r with
                  | Some _ -> false
                  | None -> true in
        let acc = app c0.cacc (v :: []) in
        if Nat.eqb (S c0.ck) c0.cend
        then (match c0.cop with
              | OPeek ->
                Some { m = m0; p = p0; c = { cp = CIdle; cop = c0.cop;
                  cpidx = c0.cpidx; cend = c0.cend; ck = (S c0.ck); cacc =
                  acc; cnh = O; clh = O; cres = O }; q = q0; k = k0; f =
                  (f_fifo (f_read f0 bad)
                    (negb (list_eqb acc (firstn (S O) q0.absq)))) }
              | _ ->
                Some { m = m0; p = p0; c = { cp =
                  (if at_end b c0.cend then CNext else CCommit); cop =
                  c0.cop; cpidx = c0.cpidx; cend = c0.cend; ck = (S c0.ck);
                  cacc = acc; cnh = O; clh = O; cres = O }; q = q0; k = k0;
                  f = (f_read f0 bad) })
        else Some { m = m0; p = p0; c = { cp = CRead; cop = c0.cop; cpidx =
               c0.cpidx; cend = c0.cend; ck = (S c0.ck); cacc = acc; cnh = O;
               clh = O; cres = O }; q = q0; k = k0; f = (f_read f0 bad) }
      | CNext ->
        Some { m = m0; p = p0; c = { cp = CSetH; cop = c0.cop; cpidx =
          c0.cpidx; cend = c0.cend; ck = c0.ck; cacc = c0.cacc; cnh =
          (m0.nxt m0.hblk); clh = O; cres = O }; q = q0; k = k0; f =
          (f_null f0 (Nat.eqb (m0.nxt m0.hblk) O)) }
      | CSetH ->
        Some { m = (m_hblk m0 c0.cnh); p = p0; c = (c_pc c0 CCommit); q = q0;
          k = (k_hk k0 (S k0.ghk)); f = f0 }
      | CCommit ->
        let n = length c0.cacc in
        Some { m = (m_hidx m0 c0.cend); p = p0; c = (c_pc c0 CIdle); q =
        { absq = (skipn n q0.absq); pushed = q0.pushed; popped =
        (app q0.popped c0.cacc); glen0 = q0.glen0; glen0p = q0.glen0p }; k =
        k0; f = (f_fifo f0 (negb (list_eqb c0.cacc (firstn n q0.absq)))) }
      | CLenH ->
        Some { m = m0; p = p0; c = { cp = CLenT; cop = c0.cop; cpidx = O;
          cend = O; ck = O; cacc = []; cnh = O; clh = m0.hidx; cres = O };
          q = q0; k = k0; f = f0 }
      | CLenT ->
        let r = sub m0.tidx c0.clh in
        Some { m = m0; p = p0; c = { cp = CIdle; cop = c0.cop; cpidx =
        m0.tidx; cend = O; ck = O; cacc = []; cnh = O; clh = c0.clh; cres =
        r }; q = q0; k = k0; f =
        (f_len f0 ((||) (Nat.ltb r q0.glen0) (Nat.ltb (length q0.absq) r))) }))

(** val init : st **)

let init =
  { m = { tidx = O; tblk = (S O); hidx = O; hblk = (S O); first = (S O);
    lasth = (S O); nxt = (fun _ -> O); slot = (fun _ _ -> None); nalloc = (S
    (S O)) }; p = { pp = PIdle; pv = O; pnew = O; plh = O; plenh = O; pres =
    O }; c = { cp = CIdle; cop = OPop; cpidx = O; cend = O; ck = O; cacc =
    []; cnh = O; clh = O; cres = O }; q = { absq = []; pushed = []; popped =
    []; glen0 = O; glen0p = O }; k = { bid = (fun _ -> S O); gfk = O; glk =
    O; gplk = O; ghk = O; gtk = O; gnb = (S O) }; f = { bad_fifo = false;
    bad_none = false; bad_read = false; bad_recyc = false; bad_over = false;
    bad_null = false; bad_len = false; bad_lenp = false } }

(** val run : nat -> st -> action list -> st option **)

let rec run b s = function
| [] -> Some s
| a :: l' -> (match step b s a with
              | Some s' -> run b s' l'
              | None -> None)

(** val monitors_ok : st -> bool **)

let monitors_ok s =
  let f0 = s.f in
  negb
    ((||)
      ((||)
        ((||)
          ((||)
            ((||) ((||) ((||) f0.bad_fifo f0.bad_none) f0.bad_read)
              f0.bad_recyc) f0.bad_over) f0.bad_null) f0.bad_len) f0.bad_lenp)

type aux = { ren : (z * nat) list; sob : (z * nat) list;
             fob : (z * nat) list; pact : z; pkind : nat; cact : z;
             ccall : nat; nitems : nat }

type ast = st * aux

(** val aux0 : aux **)

let aux0 =
  { ren = []; sob = []; fob = []; pact = Z0; pkind = O; cact = Z0; ccall = O;
    nitems = O }

(** val a_init : ast **)

let a_init =
  (init, aux0)

(** val lookup : (z * nat) list -> z -> nat option **)

let rec lookup l a =
  match l with
  | [] -> None
  | p0 :: r -> let (a', b) = p0 in if Z.eqb a' a then Some b else lookup r a

(** val rlookup : (z * nat) list -> nat -> z option **)

let rec rlookup l b =
  match l with
  | [] -> None
  | p0 :: r ->
    let (a, b') = p0 in if Nat.eqb b' b then Some a else rlookup r b

(** val bind : (z * nat) list -> z -> nat -> (z * nat) list option **)

let bind l a b =
  match lookup l a with
  | Some b' -> if Nat.eqb b' b then Some l else None
  | None ->
    (match rlookup l b with
     | Some _ -> None
     | None -> Some ((a, b) :: l))

(** val bind_ptr : (z * nat) list -> z -> nat -> (z * nat) list option **)

let bind_ptr l a b =
  if Z.eqb a Z0
  then if Nat.eqb b O then Some l else None
  else if Nat.eqb b O then None else bind l a b

(** val ppc_eqb : ppc -> ppc -> bool **)

let ppc_eqb a b =
  match a with
  | PIdle -> (match b with
              | PIdle -> true
              | _ -> false)
  | PWrite -> (match b with
               | PWrite -> true
               | _ -> false)
  | PRec1 -> (match b with
              | PRec1 -> true
              | _ -> false)
  | PRdHead -> (match b with
                | PRdHead -> true
                | _ -> false)
  | PStLH -> (match b with
              | PStLH -> true
              | _ -> false)
  | PRec2 -> (match b with
              | PRec2 -> true
              | _ -> false)
  | PLink -> (match b with
              | PLink -> true
              | _ -> false)
  | PSetT -> (match b with
              | PSetT -> true
              | _ -> false)
  | PPub -> (match b with
             | PPub -> true
             | _ -> false)
  | PLenH -> (match b with
              | PLenH -> true
              | _ -> false)
  | PLenT -> (match b with
              | PLenT -> true
              | _ -> false)

(** val cpc_eqb : cpc -> cpc -> bool **)

let cpc_eqb a b =
  match a with
  | CIdle -> (match b with
              | CIdle -> true
              | _ -> false)
  | CTail -> (match b with
              | CTail -> true
              | _ -> false)
  | CRead -> (match b with
              | CRead -> true
              | _ -> false)
  | CNext -> (match b with
              | CNext -> true
              | _ -> false)
  | CSetH -> (match b with
              | CSetH -> true
              | _ -> false)
  | CCommit -> (match b with
                | CCommit -> true
                | _ -> false)
  | CLenH -> (match b with
              | CLenH -> true
              | _ -> false)
  | CLenT -> (match b with
              | CLenT -> true
              | _ -> false)

(** val op_eqb : op -> op -> bool **)

let op_eqb a b =
  match a with
  | OPop -> (match b with
             | OPop -> true
             | _ -> false)
  | OBulk -> (match b with
              | OBulk -> true
              | _ -> false)
  | OPeek -> (match b with
              | OPeek -> true
              | _ -> false)
  | OLen -> (match b with
             | OLen -> true
             | _ -> false)

(** val set_ren : aux -> (z * nat) list -> aux **)

let set_ren x l =
  { ren = l; sob = x.sob; fob = x.fob; pact = x.pact; pkind = x.pkind; cact =
    x.cact; ccall = x.ccall; nitems = x.nitems }

(** val set_sob : aux -> (z * nat) list -> aux **)

let set_sob x l =
  { ren = x.ren; sob = l; fob = x.fob; pact = x.pact; pkind = x.pkind; cact =
    x.cact; ccall = x.ccall; nitems = x.nitems }

(** val set_pact : aux -> z -> nat -> aux **)

let set_pact x a k0 =
  { ren = x.ren; sob = x.sob; fob = x.fob; pact = a; pkind = k0; cact =
    x.cact; ccall = x.ccall; nitems = x.nitems }

(** val set_call : aux -> z -> nat -> aux **)

let set_call x a n =
  { ren = x.ren; sob = x.sob; fob = x.fob; pact = x.pact; pkind = x.pkind;
    cact = a; ccall = n; nitems = O }

(** val set_fob : aux -> (z * nat) list -> aux **)

let set_fob x l =
  { ren = x.ren; sob = x.sob; fob = l; pact = x.pact; pkind = x.pkind; cact =
    x.cact; ccall = x.ccall; nitems = x.nitems }

(** val set_items : aux -> nat -> aux **)

let set_items x n =
  { ren = x.ren; sob = x.sob; fob = x.fob; pact = x.pact; pkind = x.pkind;
    cact = x.cact; ccall = x.ccall; nitems = n }

(** val fin :
    nat -> st -> bool -> action list -> (st -> bool) -> (st -> aux option) ->
    ast option **)

let fin b s pre acts post nx =
  if pre
  then (match run b s acts with
        | Some s' ->
          if post s'
          then (match nx s' with
                | Some x' -> Some (s', x')
                | None -> None)
          else None
        | None -> None)
  else None

(** val zn : nat -> z -> bool **)

let zn n v =
  Z.eqb (Z.of_nat n) v

(** val znz : z -> bool **)

let znz v =
  negb (Z.eqb v Z0)

(** val ptr_ev :
    nat -> st -> aux -> bool -> action -> z -> (st -> nat) -> ast option **)

let ptr_ev b s x pre a v blk =
  fin b s pre (a :: []) (fun _ -> true) (fun s' ->
    option_map (set_ren x) (bind_ptr x.ren v (blk s')))

(** val load_acts : nat -> st -> action list **)

let load_acts b s =
  let m0 = s.m in
  let n =
    if Nat.eqb m0.hidx m0.tidx
    then O
    else (match s.c.cop with
          | OBulk -> sub (Nat.min m0.tidx (blkend b m0.hidx)) m0.hidx
          | _ -> S O)
  in
  CStep :: (repeat CStep n)

(** val reads_done : st -> bool **)

let reads_done s =
  (&&) (negb (cpc_eqb s.c.cp CRead)) (negb (cpc_eqb s.c.cp CTail))

(** val field_of : st -> z -> nat option **)

let field_of s = function
| Zpos p0 ->
  (match p0 with
   | XI p1 ->
     (match p1 with
      | XI p2 ->
        (match p2 with
         | XI p3 ->
           (match p3 with
            | XI p4 ->
              (match p4 with
               | XH ->
                 Some
                   (add (S (S (S (S (S (S (S (S (S (S (S (S (S (S (S (S (S (S
                     (S (S (S (S (S (S (S (S (S (S (S (S (S (S (S (S (S (S (S
                     (S (S (S (S (S (S (S (S (S (S (S (S (S (S (S (S (S (S (S
                     (S (S (S (S (S (S (S (S (S (S (S (S (S (S (S (S (S (S (S
                     (S (S (S (S (S (S (S (S (S (S (S (S (S (S (S (S (S (S (S
                     (S (S (S (S (S (S
                     O))))))))))))))))))))))))))))))))))))))))))))))))))))))))))))))))))))))))))))))))))))))))))))))))))))
                     s.m.hblk)
               | _ -> None)
            | XO p4 ->
              (match p4 with
               | XH -> Some (S (S (S (S (S O)))))
               | _ -> None)
            | XH -> None)
         | XO p3 ->
           (match p3 with
            | XI p4 ->
              (match p4 with
               | XO p5 -> (match p5 with
                           | XH -> Some (S (S O))
                           | _ -> None)
               | _ -> None)
            | _ -> None)
         | XH -> None)
      | XO p2 ->
        (match p2 with
         | XI p3 ->
           (match p3 with
            | XI p4 ->
              (match p4 with
               | XI p5 -> (match p5 with
                           | XH -> Some (S O)
                           | _ -> None)
               | _ -> None)
            | XO p4 ->
              (match p4 with
               | XH -> Some (S (S (S (S (S O)))))
               | _ -> None)
            | XH -> None)
         | XO p3 ->
           (match p3 with
            | XI p4 ->
              (match p4 with
               | XI _ -> None
               | XO p5 ->
                 (match p5 with
                  | XH ->
                    Some
                      (add (S (S (S (S (S (S (S (S (S (S (S (S (S (S (S (S (S
                        (S (S (S (S (S (S (S (S (S (S (S (S (S (S (S (S (S (S
                        (S (S (S (S (S (S (S (S (S (S (S (S (S (S (S (S (S (S
                        (S (S (S (S (S (S (S (S (S (S (S (S (S (S (S (S (S (S
                        (S (S (S (S (S (S (S (S (S (S (S (S (S (S (S (S (S (S
                        (S (S (S (S (S (S (S (S (S (S (S
                        O))))))))))))))))))))))))))))))))))))))))))))))))))))))))))))))))))))))))))))))))))))))))))))))))))))
                        s.m.hblk)
                  | _ -> None)
               | XH -> Some (S (S (S O))))
            | XO p4 ->
              (match p4 with
               | XO p5 -> (match p5 with
                           | XH -> Some (S (S O))
                           | _ -> None)
               | _ -> None)
            | XH -> None)
         | XH -> None)
      | XH -> None)
   | XO p1 ->
     (match p1 with
      | XI p2 ->
        (match p2 with
         | XI p3 ->
           (match p3 with
            | XI p4 -> (match p4 with
                        | XH -> Some (S O)
                        | _ -> None)
            | XO p4 ->
              (match p4 with
               | XH -> Some (S (S (S (S (S (S O))))))
               | _ -> None)
            | XH -> None)
         | XO p3 ->
           (match p3 with
            | XI p4 ->
              (match p4 with
               | XI _ -> None
               | XO p5 ->
                 (match p5 with
                  | XH -> Some (S (S (S (S O))))
                  | _ -> None)
               | XH -> Some (S O))
            | XO p4 ->
              (match p4 with
               | XI p5 -> (match p5 with
                           | XH -> Some (S O)
                           | _ -> None)
               | _ -> None)
            | XH -> None)
         | XH -> None)
      | XO p2 ->
        (match p2 with
         | XI p3 ->
           (match p3 with
            | XI p4 ->
              (match p4 with
               | XI p5 -> (match p5 with
                           | XH -> Some (S (S O))
                           | _ -> None)
               | _ -> None)
            | _ -> None)
         | XO p3 ->
           (match p3 with
            | XI p4 ->
              (match p4 with
               | XI _ -> None
               | XO p5 -> (match p5 with
                           | XH -> Some (S O)
                           | _ -> None)
               | XH ->
                 Some
                   (add (S (S (S (S (S (S (S (S (S (S (S (S (S (S (S (S (S (S
                     (S (S (S (S (S (S (S (S (S (S (S (S (S (S (S (S (S (S (S
                     (S (S (S (S (S (S (S (S (S (S (S (S (S (S (S (S (S (S (S
                     (S (S (S (S (S (S (S (S (S (S (S (S (S (S (S (S (S (S (S
                     (S (S (S (S (S (S (S (S (S (S (S (S (S (S (S (S (S (S (S
                     (S (S (S (S (S (S
                     O))))))))))))))))))))))))))))))))))))))))))))))))))))))))))))))))))))))))))))))))))))))))))))))))))))
                     s.m.tblk))
            | XO p4 ->
              (match p4 with
               | XO p5 ->
                 (match p5 with
                  | XH -> Some (S (S (S (S O))))
                  | _ -> None)
               | _ -> None)
            | XH -> None)
         | XH -> None)
      | XH -> None)
   | XH -> None)
| _ -> None

(** val accept_core : nat -> ast -> z list -> ast option **)

let accept_core b sx e =
  let (s, x) = sx in
  let m0 = s.m in
  let p0 = s.p in
  let c0 = s.c in
  let inp = fun a -> Z.eqb x.pact a in
  let inc = fun a k0 -> (&&) (Z.eqb x.cact a) (Nat.eqb x.ccall k0) in
  let at_c = fun pc o -> (&&) (cpc_eqb c0.cp pc) (op_eqb c0.cop o) in
  (match e with
   | [] -> None
   | code :: l ->
     (match l with
      | [] -> None
      | a :: l0 ->
        (match l0 with
         | [] -> None
         | o :: l1 ->
           (match l1 with
            | [] -> None
            | v :: l2 ->
              (match l2 with
               | [] ->
                 (match code with
                  | Zpos p1 ->
                    (match p1 with
                     | XI p2 ->
                       (match p2 with
                        | XI p3 ->
                          (match p3 with
                           | XI p4 ->
                             (match p4 with
                              | XI p5 ->
                                (match p5 with
                                 | XH ->
                                   ptr_ev b s x
                                     ((&&) (at_c CNext OPop) (inc a (S O)))
                                     CStep v (fun s' -> s'.c.cnh)
                                 | _ -> None)
                              | XO p5 ->
                                (match p5 with
                                 | XH ->
                                   ptr_ev b s x
                                     ((&&) (ppc_eqb p0.pp PRec2) (inp a))
                                     PStep v (fun s' -> s'.m.first)
                                 | _ -> None)
                              | XH ->
                                fin b s
                                  ((&&)
                                    ((&&)
                                      ((&&) (ppc_eqb p0.pp PIdle) (inp a))
                                      (Nat.eqb x.pkind (S (S O))))
                                    (zn p0.pres v)) [] (fun _ -> true)
                                  (fun _ -> Some (set_pact x Z0 O)))
                           | XO p4 ->
                             (match p4 with
                              | XI p5 ->
                                (match p5 with
                                 | XO p6 ->
                                   (match p6 with
                                    | XH ->
                                      fin b s
                                        ((&&) (at_c CCommit OBulk)
                                          (inc a (S (S O)))) (CStep :: [])
                                        (fun s' -> zn s'.m.hidx v) (fun _ ->
                                        Some x)
                                    | _ -> None)
                                 | _ -> None)
                              | XO _ -> None
                              | XH ->
                                fin b s
                                  ((&&)
                                    ((&&)
                                      ((&&) (cpc_eqb c0.cp CIdle)
                                        (inc a (S (S (S (S O))))))
                                      (op_eqb c0.cop OLen))
                                    (eqb (Nat.eqb c0.cres O) (znz v))) []
                                  (fun _ -> true) (fun _ -> Some
                                  (set_call x Z0 O)))
                           | XH ->
                             fin b s
                               ((&&)
                                 ((&&)
                                   ((&&)
                                     ((&&)
                                       ((&&) (cpc_eqb c0.cp CIdle)
                                         (inc a (S (S O))))
                                       (op_eqb c0.cop OBulk)) (zn x.nitems o))
                                   (Nat.ltb x.nitems (length c0.cacc)))
                                 (zn (nth x.nitems c0.cacc O) v)) []
                               (fun _ -> true) (fun _ -> Some
                               (set_items x (S x.nitems))))
                        | XO p3 ->
                          (match p3 with
                           | XI p4 ->
                             (match p4 with
                              | XI p5 ->
                                (match p5 with
                                 | XI p6 ->
                                   (match p6 with
                                    | XH ->
                                      if (&&) (inp a)
                                           (Nat.eqb x.pkind (S (S O)))
                                      then fin b s
                                             ((&&) (ppc_eqb p0.pp PLenT)
                                               (zn m0.tidx v)) (PStep :: [])
                                             (fun _ -> true) (fun _ -> Some x)
                                      else fin b s
                                             ((&&)
                                               ((&&) (at_c CLenT OLen)
                                                 ((||) (inc a (S (S (S O))))
                                                   (inc a (S (S (S (S O)))))))
                                               (zn m0.tidx v)) (CStep :: [])
                                             (fun _ -> true) (fun _ -> Some x)
                                    | _ -> None)
                                 | _ -> None)
                              | XO p5 ->
                                (match p5 with
                                 | XH ->
                                   ptr_ev b s x
                                     ((&&) (ppc_eqb p0.pp PRec1) (inp a))
                                     PStep v (fun s' -> s'.m.first)
                                 | _ -> None)
                              | XH ->
                                fin b s
                                  ((&&)
                                    ((&&)
                                      ((&&) (cpc_eqb c0.cp CIdle)
                                        (inc a (S (S (S (S (S O)))))))
                                      (op_eqb c0.cop OPeek))
                                    (if znz o
                                     then (match c0.cacc with
                                           | [] -> false
                                           | r :: l3 ->
                                             (match l3 with
                                              | [] -> zn r v
                                              | _ :: _ -> false))
                                     else isnil c0.cacc)) [] (fun _ -> true)
                                  (fun _ -> Some (set_call x Z0 O)))
                           | XO p4 ->
                             (match p4 with
                              | XI p5 ->
                                (match p5 with
                                 | XI _ -> None
                                 | XO p6 ->
                                   (match p6 with
                                    | XH ->
                                      ptr_ev b s x
                                        ((&&) (at_c CNext OBulk)
                                          (inc a (S (S O)))) CStep v
                                        (fun s' -> s'.c.cnh)
                                    | _ -> None)
                                 | XH ->
                                   ptr_ev b s x
                                     ((&&) (ppc_eqb p0.pp PSetT) (inp a))
                                     PStep v (fun s' -> s'.m.tblk))
                              | XO p5 ->
                                (match p5 with
                                 | XO p6 ->
                                   (match p6 with
                                    | XH ->
                                      fin b s
                                        ((&&) (at_c CCommit OPop)
                                          (inc a (S O))) (CStep :: [])
                                        (fun s' -> zn s'.m.hidx v) (fun _ ->
                                        Some x)
                                    | _ -> None)
                                 | _ -> None)
                              | XH ->
                                fin b s
                                  ((&&)
                                    ((&&)
                                      ((&&) (cpc_eqb c0.cp CIdle)
                                        (inc a (S (S (S O)))))
                                      (op_eqb c0.cop OLen)) (zn c0.cres v))
                                  [] (fun _ -> true) (fun _ -> Some
                                  (set_call x Z0 O)))
                           | XH ->
                             fin b s
                               ((&&) (cpc_eqb c0.cp CIdle)
                                 (Nat.eqb x.ccall O)) (Bulk :: []) (fun _ ->
                               true) (fun _ -> Some (set_call x a (S (S O)))))
                        | XH ->
                          fin b s
                            ((&&) (cpc_eqb c0.cp CIdle) (Nat.eqb x.ccall O))
                            (Pop :: []) (fun _ -> true) (fun _ -> Some
                            (set_call x a (S O))))
                     | XO p2 ->
                       (match p2 with
                        | XI p3 ->
                          (match p3 with
                           | XI p4 ->
                             (match p4 with
                              | XI p5 ->
                                (match p5 with
                                 | XH ->
                                   fin b s
                                     ((&&)
                                       ((&&) (at_c CTail OPop) (inc a (S O)))
                                       (zn m0.tidx v)) (CStep :: [])
                                     (fun _ -> true) (fun _ -> Some x)
                                 | _ -> None)
                              | XO p5 ->
                                (match p5 with
                                 | XH ->
                                   ptr_ev b s x
                                     ((&&) (ppc_eqb p0.pp PStLH) (inp a))
                                     PStep v (fun s' -> s'.m.lasth)
                                 | _ -> None)
                              | XH ->
                                fin b s
                                  ((&&)
                                    ((&&) (ppc_eqb p0.pp PIdle)
                                      (Z.eqb x.pact Z0)) (Z.ltb Z0 a))
                                  (PLen :: []) (fun _ -> true) (fun _ -> Some
                                  (set_pact x a (S (S O)))))
                           | XO p4 ->
                             (match p4 with
                              | XI p5 ->
                                (match p5 with
                                 | XI _ -> None
                                 | XO p6 ->
                                   (match p6 with
                                    | XH ->
                                      ptr_ev b s x
                                        ((&&) (at_c CSetH OBulk)
                                          (inc a (S (S O)))) CStep v
                                        (fun s' -> s'.m.hblk)
                                    | _ -> None)
                                 | XH ->
                                   fin b s
                                     ((&&) (ppc_eqb p0.pp PPub) (inp a))
                                     (PStep :: []) (fun s' -> zn s'.m.tidx v)
                                     (fun _ -> Some x))
                              | XO p5 ->
                                (match p5 with
                                 | XI p6 ->
                                   (match p6 with
                                    | XH ->
                                      fin b s
                                        ((&&)
                                          ((&&) (at_c CTail OPeek)
                                            (inc a (S (S (S (S (S O)))))))
                                          (zn m0.tidx v)) (load_acts b s)
                                        reads_done (fun _ -> Some x)
                                    | _ -> None)
                                 | XO p6 ->
                                   (match p6 with
                                    | XH ->
                                      fin b s
                                        ((&&)
                                          ((&&) (cpc_eqb c0.cp CRead)
                                            ((||)
                                              ((&&) (op_eqb c0.cop OPop)
                                                (inc a (S O)))
                                              ((&&) (op_eqb c0.cop OBulk)
                                                (inc a (S (S O))))))
                                          (zn (Nat.modulo c0.ck b) v))
                                        (CStep :: []) (fun _ -> true)
                                        (fun _ ->
                                        option_map (set_sob x)
                                          (bind x.sob o
                                            (add (mul m0.hblk b)
                                              (Nat.modulo c0.ck b))))
                                    | _ -> None)
                                 | XH -> None)
                              | XH ->
                                fin b s
                                  ((&&) (cpc_eqb c0.cp CIdle)
                                    (Nat.eqb x.ccall O)) (Len :: [])
                                  (fun _ -> true) (fun _ -> Some
                                  (set_call x a (S (S (S (S O)))))))
                           | XH ->
                             fin b s
                               ((&&)
                                 ((&&)
                                   ((&&)
                                     ((&&) (cpc_eqb c0.cp CIdle)
                                       (inc a (S (S O))))
                                     (op_eqb c0.cop OBulk))
                                   (zn (length c0.cacc) o))
                                 (Nat.eqb x.nitems (length c0.cacc))) []
                               (fun _ -> true) (fun _ -> Some
                               (set_call x Z0 O)))
                        | XO p3 ->
                          (match p3 with
                           | XI p4 ->
                             (match p4 with
                              | XI p5 ->
                                (match p5 with
                                 | XI p6 ->
                                   (match p6 with
                                    | XH ->
                                      if (&&) (inp a)
                                           (Nat.eqb x.pkind (S (S O)))
                                      then fin b s (ppc_eqb p0.pp PLenH)
                                             (PStep :: []) (fun s' ->
                                             zn s'.p.plenh v) (fun _ -> Some
                                             x)
                                      else fin b s
                                             ((&&) (at_c CLenH OLen)
                                               ((||) (inc a (S (S (S O))))
                                                 (inc a (S (S (S (S O)))))))
                                             (CStep :: []) (fun s' ->
                                             zn s'.c.clh v) (fun _ -> Some x)
                                    | _ -> None)
                                 | _ -> None)
                              | XO p5 ->
                                (match p5 with
                                 | XH ->
                                   fin b s
                                     ((&&)
                                       ((&&) (ppc_eqb p0.pp PWrite) (inp a))
                                       (zn m0.tidx v))
                                     (if (&&) (at_end b (S m0.tidx))
                                           (Nat.eqb m0.first m0.lasth)
                                      then PStep :: (PStep :: [])
                                      else PStep :: []) (fun _ -> true)
                                     (fun _ ->
                                     option_map (set_sob x)
                                       (bind x.sob o
                                         (add (mul m0.tblk b)
                                           (Nat.modulo m0.tidx b))))
                                 | _ -> None)
                              | XH ->
                                fin b s
                                  ((&&) (cpc_eqb c0.cp CIdle)
                                    (Nat.eqb x.ccall O)) (Peek :: [])
                                  (fun _ -> true) (fun _ -> Some
                                  (set_call x a (S (S (S (S (S O))))))))
                           | XO p4 ->
                             (match p4 with
                              | XI p5 ->
                                (match p5 with
                                 | XI _ -> None
                                 | XO p6 ->
                                   (match p6 with
                                    | XH ->
                                      fin b s
                                        ((&&)
                                          ((&&) (at_c CTail OBulk)
                                            (inc a (S (S O)))) (zn m0.tidx v))
                                        (CStep :: []) (fun _ -> true)
                                        (fun _ -> Some x)
                                    | _ -> None)
                                 | XH ->
                                   ptr_ev b s x
                                     ((&&) (ppc_eqb p0.pp PLink) (inp a))
                                     PStep v (fun s' -> s'.p.pnew))
                              | XO p5 ->
                                (match p5 with
                                 | XO p6 ->
                                   (match p6 with
                                    | XH ->
                                      ptr_ev b s x
                                        ((&&) (at_c CSetH OPop) (inc a (S O)))
                                        CStep v (fun s' -> s'.m.hblk)
                                    | _ -> None)
                                 | _ -> None)
                              | XH ->
                                fin b s
                                  ((&&) (cpc_eqb c0.cp CIdle)
                                    (Nat.eqb x.ccall O)) (Len :: [])
                                  (fun _ -> true) (fun _ -> Some
                                  (set_call x a (S (S (S O))))))
                           | XH ->
                             fin b s
                               ((&&)
                                 ((&&)
                                   ((&&) (cpc_eqb c0.cp CIdle) (inc a (S O)))
                                   (op_eqb c0.cop OPop))
                                 (if znz o
                                  then (match c0.cacc with
                                        | [] -> false
                                        | r :: l3 ->
                                          (match l3 with
                                           | [] -> zn r v
                                           | _ :: _ -> false))
                                  else isnil c0.cacc)) [] (fun _ -> true)
                               (fun _ -> Some (set_call x Z0 O)))
                        | XH ->
                          fin b s
                            ((&&)
                              ((&&) ((&&) (ppc_eqb p0.pp PIdle) (inp a))
                                (Nat.eqb x.pkind (S O))) (Z.ltb Z0 a)) []
                            (fun _ -> true) (fun _ -> Some (set_pact x Z0 O)))
                     | XH ->
                       fin b s
                         ((&&)
                           ((&&)
                             ((&&) (ppc_eqb p0.pp PIdle) (Z.eqb x.pact Z0))
                             (Z.leb Z0 v)) (Z.ltb Z0 a)) ((Push
                         (Z.to_nat v)) :: []) (fun _ -> true) (fun _ -> Some
                         (set_pact x a (S O))))
                  | _ -> None)
               | _ :: _ -> None)))))

(** val accept_ev : nat -> ast -> z list -> ast option **)

let accept_ev b sx e =
  match accept_core b sx e with
  | Some a ->
    let (s', x') = a in
    (match e with
     | [] -> Some (s', x')
     | code :: l ->
       (match l with
        | [] -> Some (s', x')
        | _ :: l0 ->
          (match l0 with
           | [] -> Some (s', x')
           | o :: l1 ->
             (match l1 with
              | [] -> Some (s', x')
              | _ :: l2 ->
                (match l2 with
                 | [] ->
                   (match field_of (fst sx) code with
                    | Some fld ->
                      option_map (fun l3 -> (s', (set_fob x' l3)))
                        (bind x'.fob o fld)
                    | None -> Some (s', x'))
                 | _ :: _ -> Some (s', x'))))))
  | None -> None

(** val a_final : ast -> bool **)

let a_final sx =
  monitors_ok (fst sx)

(** val m_init : ast **)

let m_init =
  a_init

(** val m_accept : ast -> z list -> ast option **)

let m_accept =
  accept_ev (S (S (S (S (S (S (S (S (S (S (S (S (S (S (S (S (S (S (S (S (S (S
    (S (S (S (S (S (S (S (S (S (S O))))))))))))))))))))))))))))))))

(** val m_final : ast -> bool **)

let m_final =
  a_final
