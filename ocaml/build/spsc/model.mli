
val negb : bool -> bool

type nat =
| O
| S of nat

val option_map : ('a1 -> 'a2) -> 'a1 option -> 'a2 option

val fst : ('a1 * 'a2) -> 'a1

val snd : ('a1 * 'a2) -> 'a2

val length : 'a1 list -> nat

val app : 'a1 list -> 'a1 list -> 'a1 list

type comparison =
| Eq
| Lt
| Gt

val compOpp : comparison -> comparison

val add : nat -> nat -> nat

val mul : nat -> nat -> nat

val sub : nat -> nat -> nat

val eqb : bool -> bool -> bool

module Nat :
 sig
  val sub : nat -> nat -> nat

  val eqb : nat -> nat -> bool

  val leb : nat -> nat -> bool

  val ltb : nat -> nat -> bool

  val min : nat -> nat -> nat

  val divmod : nat -> nat -> nat -> nat -> nat * nat

  val div : nat -> nat -> nat

  val modulo : nat -> nat -> nat
 end

val nth : nat -> 'a1 list -> 'a1 -> 'a1

val existsb : ('a1 -> bool) -> 'a1 list -> bool

val firstn : nat -> 'a1 list -> 'a1 list

val skipn : nat -> 'a1 list -> 'a1 list

val seq : nat -> nat -> nat list

val repeat : 'a1 -> nat -> 'a1 list

type positive =
| XI of positive
| XO of positive
| XH

type z =
| Z0
| Zpos of positive
| Zneg of positive

module Pos :
 sig
  val succ : positive -> positive

  val compare_cont : comparison -> positive -> positive -> comparison

  val compare : positive -> positive -> comparison

  val eqb : positive -> positive -> bool

  val iter_op : ('a1 -> 'a1 -> 'a1) -> positive -> 'a1 -> 'a1

  val to_nat : positive -> nat

  val of_succ_nat : nat -> positive
 end

module Z :
 sig
  val compare : z -> z -> comparison

  val leb : z -> z -> bool

  val ltb : z -> z -> bool

  val eqb : z -> z -> bool

  val to_nat : z -> nat

  val of_nat : nat -> z
 end

type ppc =
| PIdle
| PWrite
| PRec1
| PRdHead
| PStLH
| PRec2
| PLink
| PSetT
| PPub
| PLenH
| PLenT

type cpc =
| CIdle
| CTail
| CRead
| CNext
| CSetH
| CCommit
| CLenH
| CLenT

type op =
| OPop
| OBulk
| OPeek
| OLen

type mem = { tidx : nat; tblk : nat; hidx : nat; hblk : nat; first : 
             nat; lasth : nat; nxt : (nat -> nat);
             slot : (nat -> nat -> (nat * nat) option); nalloc : nat }

type prod0 = { pp : ppc; pv : nat; pnew : nat; plh : nat; plenh : nat;
               pres : nat }

type cons = { cp : cpc; cop : op; cpidx : nat; cend : nat; ck : nat;
              cacc : nat list; cnh : nat; clh : nat; cres : nat }

type gq = { absq : nat list; pushed : nat list; popped : nat list;
            glen0 : nat; glen0p : nat }

type gk = { bid : (nat -> nat); gfk : nat; glk : nat; gplk : nat; ghk : 
            nat; gtk : nat; gnb : nat }

type gm = { bad_fifo : bool; bad_none : bool; bad_read : bool;
            bad_recyc : bool; bad_over : bool; bad_null : bool;
            bad_len : bool; bad_lenp : bool }

type st = { m : mem; p : prod0; c : cons; q : gq; k : gk; f : gm }

val upd : (nat -> 'a1) -> nat -> 'a1 -> nat -> 'a1

val upd2 : (nat -> nat -> 'a1) -> nat -> nat -> 'a1 -> nat -> nat -> 'a1

val isnil : 'a1 list -> bool

val list_eqb : nat list -> nat list -> bool

val blkend : nat -> nat -> nat

val at_end : nat -> nat -> bool

val m_tidx : mem -> nat -> mem

val m_tblk : mem -> nat -> mem

val m_hidx : mem -> nat -> mem

val m_hblk : mem -> nat -> mem

val m_first : mem -> nat -> mem

val m_lasth : mem -> nat -> mem

val m_nxt : mem -> (nat -> nat) -> mem

val m_slot : mem -> (nat -> nat -> (nat * nat) option) -> mem

val m_nalloc : mem -> nat -> mem

val p_pc : prod0 -> ppc -> prod0

val p_new : prod0 -> nat -> prod0

val p_lh : prod0 -> nat -> prod0

val q_len0p : gq -> nat -> gq

val c_pc : cons -> cpc -> cons

val k_fk : gk -> nat -> gk

val k_lk : gk -> nat -> gk

val k_plk : gk -> nat -> gk

val k_hk : gk -> nat -> gk

val k_tk : gk -> nat -> gk

val k_app : gk -> nat -> gk

val f_fifo : gm -> bool -> gm

val f_none : gm -> bool -> gm

val f_read : gm -> bool -> gm

val f_recyc : gm -> bool -> gm

val f_over : gm -> bool -> gm

val f_null : gm -> bool -> gm

val f_len : gm -> bool -> gm

val f_lenp : gm -> bool -> gm

val rdpos : st -> nat

val in_window : st -> nat -> bool

type action =
| Push of nat
| PLen
| PStep
| Pop
| Bulk
| Peek
| Len
| CStep

val recycle : st -> st

val start_call : st -> op -> st option

val step : nat -> st -> action -> st option

val init : st

val run : nat -> st -> action list -> st option

val monitors_ok : st -> bool

type aux = { ren : (z * nat) list; sob : (z * nat) list;
             fob : (z * nat) list; pact : z; pkind : nat; cact : z;
             ccall : nat; nitems : nat }

type ast = st * aux

val aux0 : aux

val a_init : ast

val lookup : (z * nat) list -> z -> nat option

val rlookup : (z * nat) list -> nat -> z option

val bind : (z * nat) list -> z -> nat -> (z * nat) list option

val bind_ptr : (z * nat) list -> z -> nat -> (z * nat) list option

val ppc_eqb : ppc -> ppc -> bool

val cpc_eqb : cpc -> cpc -> bool

val op_eqb : op -> op -> bool

val set_ren : aux -> (z * nat) list -> aux

val set_sob : aux -> (z * nat) list -> aux

val set_pact : aux -> z -> nat -> aux

val set_call : aux -> z -> nat -> aux

val set_fob : aux -> (z * nat) list -> aux

val set_items : aux -> nat -> aux

val fin :
  nat -> st -> bool -> action list -> (st -> bool) -> (st -> aux option) ->
  ast option

val zn : nat -> z -> bool

val znz : z -> bool

val ptr_ev :
  nat -> st -> aux -> bool -> action -> z -> (st -> nat) -> ast option

val load_acts : nat -> st -> action list

val reads_done : st -> bool

val field_of : st -> z -> nat option

val accept_core : nat -> ast -> z list -> ast option

val accept_ev : nat -> ast -> z list -> ast option

val a_final : ast -> bool

val m_init : ast

val m_accept : ast -> z list -> ast option

val m_final : ast -> bool
