
val negb : bool -> bool

type nat =
| O
| S of nat

val fst : ('a1 * 'a2) -> 'a1

val snd : ('a1 * 'a2) -> 'a2

val length : 'a1 list -> nat

val app : 'a1 list -> 'a1 list -> 'a1 list

type comparison =
| Eq
| Lt
| Gt

val compOpp : comparison -> comparison

val add : nat -> nat -> nat

val sub : nat -> nat -> nat

val eqb : bool -> bool -> bool

module Nat :
 sig
  val sub : nat -> nat -> nat

  val eqb : nat -> nat -> bool

  val leb : nat -> nat -> bool

  val ltb : nat -> nat -> bool

  val max : nat -> nat -> nat

  val min : nat -> nat -> nat

  val divmod : nat -> nat -> nat -> nat -> nat * nat

  val modulo : nat -> nat -> nat
 end

val nth_error : 'a1 list -> nat -> 'a1 option

val removelast : 'a1 list -> 'a1 list

val rev : 'a1 list -> 'a1 list

val map : ('a1 -> 'a2) -> 'a1 list -> 'a2 list

val existsb : ('a1 -> bool) -> 'a1 list -> bool

val forallb : ('a1 -> bool) -> 'a1 list -> bool

val seq : nat -> nat -> nat list

type positive =
| XI of positive
| XO of positive
| XH

type n =
| N0
| Npos of positive

type z =
| Z0
| Zpos of positive
| Zneg of positive

module Pos :
 sig
  val succ : positive -> positive

  val add : positive -> positive -> positive

  val add_carry : positive -> positive -> positive

  val pred_double : positive -> positive

  val pred_N : positive -> n

  val mul : positive -> positive -> positive

  val compare_cont : comparison -> positive -> positive -> comparison

  val compare : positive -> positive -> comparison

  val eqb : positive -> positive -> bool

  val testbit : positive -> n -> bool

  val iter_op : ('a1 -> 'a1 -> 'a1) -> positive -> 'a1 -> 'a1

  val to_nat : positive -> nat

  val of_succ_nat : nat -> positive
 end

module N :
 sig
  val testbit : n -> n -> bool
 end

module Z :
 sig
  val double : z -> z

  val succ_double : z -> z

  val pred_double : z -> z

  val pos_sub : positive -> positive -> z

  val add : z -> z -> z

  val opp : z -> z

  val sub : z -> z -> z

  val mul : z -> z -> z

  val compare : z -> z -> comparison

  val leb : z -> z -> bool

  val ltb : z -> z -> bool

  val eqb : z -> z -> bool

  val to_nat : z -> nat

  val of_nat : nat -> z

  val pos_div_eucl : positive -> z -> z * z

  val div_eucl : z -> z -> z * z

  val modulo : z -> z -> z

  val odd : z -> bool

  val testbit : z -> z -> bool
 end

type opk =
| KPush
| KLocal
| KPop
| KBulk
| KSteal
| KEmpty
| KOwn

type pcT =
| Idle
| Ext
| OW
| ON
| OB
| OC
| X0
| X1
| X2
| XC
| XS
| XT
| XR
| XN
| XH0
| XH2
| XW
| XG
| XM
| LK
| LKr
| E0
| E1
| E2

type blk = { alive : bool; bstart : nat; bno : nat; used : nat;
             next : nat option; slots : (nat -> nat option) }

type ast = { pc : pcT; kd : opk; pvl : nat; lb : nat; li : nat; lpi : 
             nat; ltb0 : nat; nid : nat; ppi : nat; pend : nat;
             lnx : nat option; lnew : nat; res : nat option list;
             retry : bool; rv : nat option list; rb : bool;
             dq : nat option list; glo : nat; ghi : nat }

type st = { hb : nat; hi : nat; hl : bool; tix : nat; tbk : nat;
            heap : (nat -> blk); a : (nat -> ast); pushed : nat list;
            nblk : nat; badr : (nat -> nat); born : (nat -> bool);
            cl : (nat -> nat option); rd : (nat -> bool); rl : (nat -> bool);
            got : ((nat * nat) * nat option) list; bad_uaf : bool;
            bad_under : bool; bad_null : bool }

val b_alive : blk -> bool -> blk

val b_used : blk -> nat -> blk

val b_next : blk -> nat option -> blk

val b_slots : blk -> (nat -> nat option) -> blk

val a_pc : ast -> pcT -> ast

val a_kd : ast -> opk -> ast

val a_pvl : ast -> nat -> ast

val a_lb : ast -> nat -> ast

val a_li : ast -> nat -> ast

val a_lpi : ast -> nat -> ast

val a_ltb : ast -> nat -> ast

val a_nid : ast -> nat -> ast

val a_ppi : ast -> nat -> ast

val a_pend : ast -> nat -> ast

val a_lnx : ast -> nat option -> ast

val a_lnew : ast -> nat -> ast

val a_res : ast -> nat option list -> ast

val a_retry : ast -> bool -> ast

val a_rv : ast -> nat option list -> ast

val a_rb : ast -> bool -> ast

val a_dq : ast -> nat option list -> ast

val a_glo : ast -> nat -> ast

val a_ghi : ast -> nat -> ast

val s_hb : st -> nat -> st

val s_hi : st -> nat -> st

val s_hl : st -> bool -> st

val s_tix : st -> nat -> st

val s_tbk : st -> nat -> st

val s_heap : st -> (nat -> blk) -> st

val s_A : st -> (nat -> ast) -> st

val s_pushed : st -> nat list -> st

val s_nblk : st -> nat -> st

val s_badr : st -> (nat -> nat) -> st

val s_born : st -> (nat -> bool) -> st

val s_cl : st -> (nat -> nat option) -> st

val s_rd : st -> (nat -> bool) -> st

val s_rl : st -> (nat -> bool) -> st

val s_got : st -> ((nat * nat) * nat option) list -> st

val s_bad_uaf : st -> bool -> st

val s_bad_under : st -> bool -> st

val s_bad_null : st -> bool -> st

val upd : (nat -> 'a1) -> nat -> 'a1 -> nat -> 'a1

val inr : nat -> nat -> nat -> bool

val updr : (nat -> 'a1) -> nat -> nat -> 'a1 -> nat -> 'a1

type action =
| Call of nat * opk * nat
| Step of nat * nat
| Ret of nat

val is_bulk : opk -> bool

val is_local : opk -> bool

val is_steal : opk -> bool

val is_own : opk -> bool

val call_ok : nat -> opk -> bool

val entry : opk -> pcT

val emptyck : nat -> ast -> bool

val newid : nat -> ast -> nat

val locked : nat -> ast -> bool

val nexti : ast -> nat

val setA : st -> nat -> ast -> st

val deref : st -> nat -> st

val fresh_blk : nat -> nat -> nat -> blk

val after_loads : nat -> st -> nat -> ast -> st

val release : st -> nat -> nat -> st

val step : nat -> bool -> st -> action -> st option

val ast0 : ast

val dead_blk : blk

val init : nat -> st

val run : nat -> bool -> st -> action list -> st option

type aux = { amap : (z * nat) list; nxt : nat; rcnt : (nat -> nat) }

val aux0 : aux

val set_rcnt : aux -> nat -> nat -> aux

val look : (z * nat) list -> z -> nat option

val rlook : (z * nat) list -> nat -> z option

val bind : aux -> z -> nat -> aux option

val choose : aux -> z -> nat * aux

val pc_eqb : pcT -> pcT -> bool

val kd_eqb : opk -> opk -> bool

val zb : z -> bool

val zlock : z -> bool

val zlow : z -> z

val zidx : nat -> z -> nat

val zadr : nat -> z -> z

val zeqn : z -> nat -> bool

val chk_head : nat -> aux -> z -> nat -> nat -> bool -> aux option

val chk_ptr : aux -> z -> nat option -> aux option

val rvis : nat option list -> z -> z -> bool

val go :
  nat -> st -> aux option -> bool -> action list -> (st -> bool) ->
  (st * aux) option

val at_ : st -> nat -> pcT -> opk -> bool

val tt_ : st -> bool

val atk : st -> nat -> pcT -> opk -> bool

val ev_head_load : nat -> st -> aux -> nat -> opk -> z -> (st * aux) option

val ev_tix_load :
  nat -> st -> aux -> nat -> opk -> pcT -> bool -> z -> (st * aux) option

val ev_tbk_load :
  nat -> st -> aux -> nat -> opk -> bool -> z -> (st * aux) option

val ev_cas : nat -> st -> aux -> nat -> opk -> z -> (st * aux) option

val ev_start : nat -> st -> aux -> nat -> opk -> z -> (st * aux) option

val ev_restore : nat -> st -> aux -> nat -> opk -> z -> (st * aux) option

val ev_next : nat -> st -> aux -> nat -> opk -> z -> (st * aux) option

val ev_store_next : nat -> st -> aux -> nat -> opk -> z -> (st * aux) option

val ev_store_same : nat -> st -> aux -> nat -> opk -> z -> (st * aux) option

val accept_ev : nat -> (st * aux) -> z list -> (st * aux) option

val nodupb : nat list -> bool

val oeqb : nat option -> nat option -> bool

val got_ok : st -> bool

val monitors_ok : (st * aux) -> bool

val m_init : st * aux

val m_accept : (st * aux) -> z list -> (st * aux) option

val m_final : (st * aux) -> bool
