
(** val negb : bool -> bool **)

let negb = function
| true -> false
| false -> true

type nat =
| O
| S of nat

(** val fst : ('a1 * 'a2) -> 'a1 **)

let fst = function
| (x, _) -> x

(** val snd : ('a1 * 'a2) -> 'a2 **)

let snd = function
| (_, y) -> y

(** val length : 'a1 list -> nat **)

let rec length = function
| [] -> O
| _ :: l' -> S (length l')

(** val app : 'a1 list -> 'a1 list -> 'a1 list **)

let rec app l m =
  match l with
  | [] -> m
  | a0 :: l1 -> a0 :: (app l1 m)

type comparison =
| Eq
| Lt
| Gt

(** val compOpp : comparison -> comparison **)

let compOpp = function
| Eq -> Eq
| Lt -> Gt
| Gt -> Lt

module Coq__1 = struct
 (** val add : nat -> nat -> nat **)
 let rec add n0 m =
   match n0 with
   | O -> m
   | S p -> S (add p m)
end
include Coq__1

(** val sub : nat -> nat -> nat **)

let rec sub n0 m =
  match n0 with
  | O -> n0
  | S k -> (match m with
            | O -> n0
            | S l -> sub k l)

(** val eqb : bool -> bool -> bool **)

let eqb b1 b2 =
  if b1 then b2 else if b2 then false else true

module Nat =
 struct
  (** val sub : nat -> nat -> nat **)

  let rec sub n0 m =
    match n0 with
    | O -> n0
    | S k -> (match m with
              | O -> n0
              | S l -> sub k l)

  (** val eqb : nat -> nat -> bool **)

  let rec eqb n0 m =
    match n0 with
    | O -> (match m with
            | O -> true
            | S _ -> false)
    | S n' -> (match m with
               | O -> false
               | S m' -> eqb n' m')

  (** val leb : nat -> nat -> bool **)

  let rec leb n0 m =
    match n0 with
    | O -> true
    | S n' -> (match m with
               | O -> false
               | S m' -> leb n' m')

  (** val ltb : nat -> nat -> bool **)

  let ltb n0 m =
    leb (S n0) m

  (** val max : nat -> nat -> nat **)

  let rec max n0 m =
    match n0 with
    | O -> m
    | S n' -> (match m with
               | O -> n0
               | S m' -> S (max n' m'))

  (** val min : nat -> nat -> nat **)

  let rec min n0 m =
    match n0 with
    | O -> O
    | S n' -> (match m with
               | O -> O
               | S m' -> S (min n' m'))

  (** val divmod : nat -> nat -> nat -> nat -> nat * nat **)

  let rec divmod x y q u =
    match x with
    | O -> (q, u)
    | S x' ->
      (match u with
       | O -> divmod x' y (S q) y
       | S u' -> divmod x' y q u')

  (** val modulo : nat -> nat -> nat **)

  let modulo x = function
  | O -> x
  | S y' -> sub y' (snd (divmod x y' O y'))
 end

(** val nth_error : 'a1 list -> nat -> 'a1 option **)

let rec nth_error l = function
| O -> (match l with
        | [] -> None
        | x :: _ -> Some x)
| S n1 -> (match l with
           | [] -> None
           | _ :: l0 -> nth_error l0 n1)

(** val removelast : 'a1 list -> 'a1 list **)

let rec removelast = function
| [] -> []
| a0 :: l0 -> (match l0 with
               | [] -> []
               | _ :: _ -> a0 :: (removelast l0))

(** val rev : 'a1 list -> 'a1 list **)

let rec rev = function
| [] -> []
| x :: l' -> app (rev l') (x :: [])

(** val map : ('a1 -> 'a2) -> 'a1 list -> 'a2 list **)

let rec map f = function
| [] -> []
| a0 :: t -> (f a0) :: (map f t)

(** val existsb : ('a1 -> bool) -> 'a1 list -> bool **)

let rec existsb f = function
| [] -> false
| a0 :: l0 -> (||) (f a0) (existsb f l0)

(** val forallb : ('a1 -> bool) -> 'a1 list -> bool **)

let rec forallb f = function
| [] -> true
| a0 :: l0 -> (&&) (f a0) (forallb f l0)

(** val seq : nat -> nat -> nat list **)

let rec seq start = function
| O -> []
| S len0 -> start :: (seq (S start) len0)

type positive =
| XI of positive
| XO of positive
| XH

type n =
| N0
| Npos of positive

type z =
| Z0
| Zpos of positive
| Zneg of positive

module Pos =
 struct
  (** val succ : positive -> positive **)

  let rec succ = function
  | XI p -> XO (succ p)
  | XO p -> XI p
  | XH -> XO XH

  (** val add : positive -> positive -> positive **)

  let rec add x y =
    match x with
    | XI p ->
      (match y with
       | XI q -> XO (add_carry p q)
       | XO q -> XI (add p q)
       | XH -> XO (succ p))
    | XO p ->
      (match y with
       | XI q -> XI (add p q)
       | XO q -> XO (add p q)
       | XH -> XI p)
    | XH -> (match y with
             | XI q -> XO (succ q)
             | XO q -> XI q
             | XH -> XO XH)

  (** val add_carry : positive -> positive -> positive **)

  and add_carry x y =
    match x with
    | XI p ->
      (match y with
       | XI q -> XI (add_carry p q)
       | XO q -> XO (add_carry p q)
       | XH -> XI (succ p))
    | XO p ->
      (match y with
       | XI q -> XO (add_carry p q)
       | XO q -> XI (add p q)
       | XH -> XO (succ p))
    | XH ->
      (match y with
       | XI q -> XI (succ q)
       | XO q -> XO (succ q)
       | XH -> XI XH)

  (** val pred_double : positive -> positive **)

  let rec pred_double = function
  | XI p -> XI (XO p)
  | XO p -> XI (pred_double p)
  | XH -> XH

  (** val pred_N : positive -> n **)

  let pred_N = function
  | XI p -> Npos (XO p)
  | XO p -> Npos (pred_double p)
  | XH -> N0

  (** val mul : positive -> positive -> positive **)

  let rec mul x y =
    match x with
    | XI p -> add y (XO (mul p y))
    | XO p -> XO (mul p y)
    | XH -> y

  (** val compare_cont : comparison -> positive -> positive -> comparison **)

  let rec compare_cont r x y =
    match x with
    | XI p ->
      (match y with
       | XI q -> compare_cont r p q
       | XO q -> compare_cont Gt p q
       | XH -> Gt)
    | XO p ->
      (match y with
       | XI q -> compare_cont Lt p q
       | XO q -> compare_cont r p q
       | XH -> Gt)
    | XH -> (match y with
             | XH -> r
             | _ -> Lt)

  (** val compare : positive -> positive -> comparison **)

  let compare =
    compare_cont Eq

  (** val eqb : positive -> positive -> bool **)

  let rec eqb p q =
    match p with
    | XI p0 -> (match q with
                | XI q0 -> eqb p0 q0
                | _ -> false)
    | XO p0 -> (match q with
                | XO q0 -> eqb p0 q0
                | _ -> false)
    | XH -> (match q with
             | XH -> true
             | _ -> false)

  (** val testbit : positive -> n -> bool **)

  let rec testbit p n0 =
    match p with
    | XI p0 -> (match n0 with
                | N0 -> true
                | Npos n1 -> testbit p0 (pred_N n1))
    | XO p0 -> (match n0 with
                | N0 -> false
                | Npos n1 -> testbit p0 (pred_N n1))
    | XH -> (match n0 with
             | N0 -> true
             | Npos _ -> false)

  (** val iter_op : ('a1 -> 'a1 -> 'a1) -> positive -> 'a1 -> 'a1 **)

  let rec iter_op op p a0 =
    match p with
    | XI p0 -> op a0 (iter_op op p0 (op a0 a0))
    | XO p0 -> iter_op op p0 (op a0 a0)
    | XH -> a0

  (** val to_nat : positive -> nat **)

  let to_nat x =
    iter_op Coq__1.add x (S O)

  (** val of_succ_nat : nat -> positive **)

  let rec of_succ_nat = function
  | O -> XH
  | S x -> succ (of_succ_nat x)
 end

module N =
 struct
  (** val testbit : n -> n -> bool **)

  let testbit a0 n0 =
    match a0 with
    | N0 -> false
    | Npos p -> Pos.testbit p n0
 end

module Z =
 struct
  (** val double : z -> z **)

  let double = function
  | Z0 -> Z0
  | Zpos p -> Zpos (XO p)
  | Zneg p -> Zneg (XO p)

  (** val succ_double : z -> z **)

  let succ_double = function
  | Z0 -> Zpos XH
  | Zpos p -> Zpos (XI p)
  | Zneg p -> Zneg (Pos.pred_double p)

  (** val pred_double : z -> z **)

  let pred_double = function
  | Z0 -> Zneg XH
  | Zpos p -> Zpos (Pos.pred_double p)
  | Zneg p -> Zneg (XI p)

  (** val pos_sub : positive -> positive -> z **)

  let rec pos_sub x y =
    match x with
    | XI p ->
      (match y with
       | XI q -> double (pos_sub p q)
       | XO q -> succ_double (pos_sub p q)
       | XH -> Zpos (XO p))
    | XO p ->
      (match y with
       | XI q -> pred_double (pos_sub p q)
       | XO q -> double (pos_sub p q)
       | XH -> Zpos (Pos.pred_double p))
    | XH ->
      (match y with
       | XI q -> Zneg (XO q)
       | XO q -> Zneg (Pos.pred_double q)
       | XH -> Z0)

  (** val add : z -> z -> z **)

  let add x y =
    match x with
    | Z0 -> y
    | Zpos x' ->
      (match y with
       | Z0 -> x
       | Zpos y' -> Zpos (Pos.add x' y')
       | Zneg y' -> pos_sub x' y')
    | Zneg x' ->
      (match y with
       | Z0 -> x
       | Zpos y' -> pos_sub y' x'
       | Zneg y' -> Zneg (Pos.add x' y'))

  (** val opp : z -> z **)

  let opp = function
  | Z0 -> Z0
  | Zpos x0 -> Zneg x0
  | Zneg x0 -> Zpos x0

  (** val sub : z -> z -> z **)

  let sub m n0 =
    add m (opp n0)

  (** val mul : z -> z -> z **)

  let mul x y =
    match x with
    | Z0 -> Z0
    | Zpos x' ->
      (match y with
       | Z0 -> Z0
       | Zpos y' -> Zpos (Pos.mul x' y')
       | Zneg y' -> Zneg (Pos.mul x' y'))
    | Zneg x' ->
      (match y with
       | Z0 -> Z0
       | Zpos y' -> Zneg (Pos.mul x' y')
       | Zneg y' -> Zpos (Pos.mul x' y'))

  (** val compare : z -> z -> comparison **)

  let compare x y =
    match x with
    | Z0 -> (match y with
             | Z0 -> Eq
             | Zpos _ -> Lt
             | Zneg _ -> Gt)
    | Zpos x' -> (match y with
                  | Zpos y' -> Pos.compare x' y'
                  | _ -> Gt)
    | Zneg x' ->
      (match y with
       | Zneg y' -> compOpp (Pos.compare x' y')
       | _ -> Lt)

  (** val leb : z -> z -> bool **)

  let leb x y =
    match compare x y with
    | Gt -> false
    | _ -> true

  (** val ltb : z -> z -> bool **)

  let ltb x y =
    match compare x y with
    | Lt -> true
    | _ -> false

  (** val eqb : z -> z -> bool **)

  let eqb x y =
    match x with
    | Z0 -> (match y with
             | Z0 -> true
             | _ -> false)
    | Zpos p -> (match y with
                 | Zpos q -> Pos.eqb p q
                 | _ -> false)
    | Zneg p -> (match y with
                 | Zneg q -> Pos.eqb p q
                 | _ -> false)

  (** val to_nat : z -> nat **)

  let to_nat = function
  | Zpos p -> Pos.to_nat p
  | _ -> O

  (** val of_nat : nat -> z **)

  let of_nat = function
  | O -> Z0
  | S n1 -> Zpos (Pos.of_succ_nat n1)

  (** val pos_div_eucl : positive -> z -> z * z **)

  let rec pos_div_eucl a0 b =
    match a0 with
    | XI a' ->
      let (q, r) = pos_div_eucl a' b in
      let r' = add (mul (Zpos (XO XH)) r) (Zpos XH) in
      if ltb r' b
      then ((mul (Zpos (XO XH)) q), r')
      else ((add (mul (Zpos (XO XH)) q) (Zpos XH)), (sub r' b))
    | XO a' ->
      let (q, r) = pos_div_eucl a' b in
      let r' = mul (Zpos (XO XH)) r in
      if ltb r' b
      then ((mul (Zpos (XO XH)) q), r')
      else ((add (mul (Zpos (XO XH)) q) (Zpos XH)), (sub r' b))
    | XH -> if leb (Zpos (XO XH)) b then (Z0, (Zpos XH)) else ((Zpos XH), Z0)

  (** val div_eucl : z -> z -> z * z **)

  let div_eucl a0 b =
    match a0 with
    | Z0 -> (Z0, Z0)
    | Zpos a' ->
      (match b with
       | Z0 -> (Z0, a0)
       | Zpos _ -> pos_div_eucl a' b
       | Zneg b' ->
         let (q, r) = pos_div_eucl a' (Zpos b') in
         (match r with
          | Z0 -> ((opp q), Z0)
          | _ -> ((opp (add q (Zpos XH))), (add b r))))
    | Zneg a' ->
      (match b with
       | Z0 -> (Z0, a0)
       | Zpos _ ->
         let (q, r) = pos_div_eucl a' b in
         (match r with
          | Z0 -> ((opp q), Z0)
          | _ -> ((opp (add q (Zpos XH))), (sub b r)))
       | Zneg b' -> let (q, r) = pos_div_eucl a' (Zpos b') in (q, (opp r)))

  (** val modulo : z -> z -> z **)

  let modulo a0 b =
    let (_, r) = div_eucl a0 b in r

  (** val odd : z -> bool **)

  let odd = function
  | Z0 -> false
  | Zpos p -> (match p with
               | XO _ -> false
               | _ -> true)
  | Zneg p -> (match p with
               | XO _ -> false
               | _ -> true)

  (** val testbit : z -> z -> bool **)

  let testbit a0 = function
  | Z0 -> odd a0
  | Zpos p ->
    (match a0 with
     | Z0 -> false
     | Zpos a1 -> Pos.testbit a1 (Npos p)
     | Zneg a1 -> negb (N.testbit (Pos.pred_N a1) (Npos p)))
  | Zneg _ -> false
 end

type opk =
| KPush
| KLocal
| KPop
| KBulk
| KSteal
| KEmpty
| KOwn

type pcT =
| Idle
| Ext
| OW
| ON
| OB
| OC
| X0
| X1
| X2
| XC
| XS
| XT
| XR
| XN
| XH0
| XH2
| XW
| XG
| XM
| LK
| LKr
| E0
| E1
| E2

type blk = { alive : bool; bstart : nat; bno : nat; used : nat;
             next : nat option; slots : (nat -> nat option) }

type ast = { pc : pcT; kd : opk; pvl : nat; lb : nat; li : nat; lpi : 
             nat; ltb0 : nat; nid : nat; ppi : nat; pend : nat;
             lnx : nat option; lnew : nat; res : nat option list;
             retry : bool; rv : nat option list; rb : bool;
             dq : nat option list; glo : nat; ghi : nat }

type st = { hb : nat; hi : nat; hl : bool; tix : nat; tbk : nat;
            heap : (nat -> blk); a : (nat -> ast); pushed : nat list;
            nblk : nat; badr : (nat -> nat); born : (nat -> bool);
            cl : (nat -> nat option); rd : (nat -> bool); rl : (nat -> bool);
            got : ((nat * nat) * nat option) list; bad_uaf : bool;
            bad_under : bool; bad_null : bool }

(** val b_alive : blk -> bool -> blk **)

let b_alive x v =
  { alive = v; bstart = x.bstart; bno = x.bno; used = x.used; next = x.next;
    slots = x.slots }

(** val b_used : blk -> nat -> blk **)

let b_used x v =
  { alive = x.alive; bstart = x.bstart; bno = x.bno; used = v; next = x.next;
    slots = x.slots }

(** val b_next : blk -> nat option -> blk **)

let b_next x v =
  { alive = x.alive; bstart = x.bstart; bno = x.bno; used = x.used; next = v;
    slots = x.slots }

(** val b_slots : blk -> (nat -> nat option) -> blk **)

let b_slots x v =
  { alive = x.alive; bstart = x.bstart; bno = x.bno; used = x.used; next =
    x.next; slots = v }

(** val a_pc : ast -> pcT -> ast **)

let a_pc x v =
  { pc = v; kd = x.kd; pvl = x.pvl; lb = x.lb; li = x.li; lpi = x.lpi; ltb0 =
    x.ltb0; nid = x.nid; ppi = x.ppi; pend = x.pend; lnx = x.lnx; lnew =
    x.lnew; res = x.res; retry = x.retry; rv = x.rv; rb = x.rb; dq = x.dq;
    glo = x.glo; ghi = x.ghi }

(** val a_kd : ast -> opk -> ast **)

let a_kd x v =
  { pc = x.pc; kd = v; pvl = x.pvl; lb = x.lb; li = x.li; lpi = x.lpi; ltb0 =
    x.ltb0; nid = x.nid; ppi = x.ppi; pend = x.pend; lnx = x.lnx; lnew =
    x.lnew; res = x.res; retry = x.retry; rv = x.rv; rb = x.rb; dq = x.dq;
    glo = x.glo; ghi = x.ghi }

(** val a_pvl : ast -> nat -> ast **)

let a_pvl x v =
  { pc = x.pc; kd = x.kd; pvl = v; lb = x.lb; li = x.li; lpi = x.lpi; ltb0 =
    x.ltb0; nid = x.nid; ppi = x.ppi; pend = x.pend; lnx = x.lnx; lnew =
    x.lnew; res = x.res; retry = x.retry; rv = x.rv; rb = x.rb; dq = x.dq;
    glo = x.glo; ghi = x.ghi }

(** val a_lb : ast -> nat -> ast **)

let a_lb x v =
  { pc = x.pc; kd = x.kd; pvl = x.pvl; lb = v; li = x.li; lpi = x.lpi; ltb0 =
    x.ltb0; nid = x.nid; ppi = x.ppi; pend = x.pend; lnx = x.lnx; lnew =
    x.lnew; res = x.res; retry = x.retry; rv = x.rv; rb = x.rb; dq = x.dq;
    glo = x.glo; ghi = x.ghi }

(** val a_li : ast -> nat -> ast **)

let a_li x v =
  { pc = x.pc; kd = x.kd; pvl = x.pvl; lb = x.lb; li = v; lpi = x.lpi; ltb0 =
    x.ltb0; nid = x.nid; ppi = x.ppi; pend = x.pend; lnx = x.lnx; lnew =
    x.lnew; res = x.res; retry = x.retry; rv = x.rv; rb = x.rb; dq = x.dq;
    glo = x.glo; ghi = x.ghi }

(** val a_lpi : ast -> nat -> ast **)

let a_lpi x v =
  { pc = x.pc; kd = x.kd; pvl = x.pvl; lb = x.lb; li = x.li; lpi = v; ltb0 =
    x.ltb0; nid = x.nid; ppi = x.ppi; pend = x.pend; lnx = x.lnx; lnew =
    x.lnew; res = x.res; retry = x.retry; rv = x.rv; rb = x.rb; dq = x.dq;
    glo = x.glo; ghi = x.ghi }

(** val a_ltb : ast -> nat -> ast **)

let a_ltb x v =
  { pc = x.pc; kd = x.kd; pvl = x.pvl; lb = x.lb; li = x.li; lpi = x.lpi;
    ltb0 = v; nid = x.nid; ppi = x.ppi; pend = x.pend; lnx = x.lnx; lnew =
    x.lnew; res = x.res; retry = x.retry; rv = x.rv; rb = x.rb; dq = x.dq;
    glo = x.glo; ghi = x.ghi }

(** val a_nid : ast -> nat -> ast **)

let a_nid x v =
  { pc = x.pc; kd = x.kd; pvl = x.pvl; lb = x.lb; li = x.li; lpi = x.lpi;
    ltb0 = x.ltb0; nid = v; ppi = x.ppi; pend = x.pend; lnx = x.lnx; lnew =
    x.lnew; res = x.res; retry = x.retry; rv = x.rv; rb = x.rb; dq = x.dq;
    glo = x.glo; ghi = x.ghi }

(** val a_ppi : ast -> nat -> ast **)

let a_ppi x v =
  { pc = x.pc; kd = x.kd; pvl = x.pvl; lb = x.lb; li = x.li; lpi = x.lpi;
    ltb0 = x.ltb0; nid = x.nid; ppi = v; pend = x.pend; lnx = x.lnx; lnew =
    x.lnew; res = x.res; retry = x.retry; rv = x.rv; rb = x.rb; dq = x.dq;
    glo = x.glo; ghi = x.ghi }

(** val a_pend : ast -> nat -> ast **)

let a_pend x v =
  { pc = x.pc; kd = x.kd; pvl = x.pvl; lb = x.lb; li = x.li; lpi = x.lpi;
    ltb0 = x.ltb0; nid = x.nid; ppi = x.ppi; pend = v; lnx = x.lnx; lnew =
    x.lnew; res = x.res; retry = x.retry; rv = x.rv; rb = x.rb; dq = x.dq;
    glo = x.glo; ghi = x.ghi }

(** val a_lnx : ast -> nat option -> ast **)

let a_lnx x v =
  { pc = x.pc; kd = x.kd; pvl = x.pvl; lb = x.lb; li = x.li; lpi = x.lpi;
    ltb0 = x.ltb0; nid = x.nid; ppi = x.ppi; pend = x.pend; lnx = v; lnew =
    x.lnew; res = x.res; retry = x.retry; rv = x.rv; rb = x.rb; dq = x.dq;
    glo = x.glo; ghi = x.ghi }

(** val a_lnew : ast -> nat -> ast **)

let a_lnew x v =
  { pc = x.pc; kd = x.kd; pvl = x.pvl; lb = x.lb; li = x.li; lpi = x.lpi;
    ltb0 = x.ltb0; nid = x.nid; ppi = x.ppi; pend = x.pend; lnx = x.lnx;
    lnew = v; res = x.res; retry = x.retry; rv = x.rv; rb = x.rb; dq = x.dq;
    glo = x.glo; ghi = x.ghi }

(** val a_res : ast -> nat option list -> ast **)

let a_res x v =
  { pc = x.pc; kd = x.kd; pvl = x.pvl; lb = x.lb; li = x.li; lpi = x.lpi;
    ltb0 = x.ltb0; nid = x.nid; ppi = x.ppi; pend = x.pend; lnx = x.lnx;
    lnew = x.lnew; res = v; retry = x.retry; rv = x.rv; rb = x.rb; dq = x.dq;
    glo = x.glo; ghi = x.ghi }

(** val a_retry : ast -> bool -> ast **)

let a_retry x v =
  { pc = x.pc; kd = x.kd; pvl = x.pvl; lb = x.lb; li = x.li; lpi = x.lpi;
    ltb0 = x.ltb0; nid = x.nid; ppi = x.ppi; pend = x.pend; lnx = x.lnx;
    lnew = x.lnew; res = x.res; retry = v; rv = x.rv; rb = x.rb; dq = x.dq;
    glo = x.glo; ghi = x.ghi }

(** val a_rv : ast -> nat option list -> ast **)

let a_rv x v =
  { pc = x.pc; kd = x.kd; pvl = x.pvl; lb = x.lb; li = x.li; lpi = x.lpi;
    ltb0 = x.ltb0; nid = x.nid; ppi = x.ppi; pend = x.pend; lnx = x.lnx;
    lnew = x.lnew; res = x.res; retry = x.retry; rv = v; rb = x.rb; dq =
    x.dq; glo = x.glo; ghi = x.ghi }

(** val a_rb : ast -> bool -> ast **)

let a_rb x v =
  { pc = x.pc; kd = x.kd; pvl = x.pvl; lb = x.lb; li = x.li; lpi = x.lpi;
    ltb0 = x.ltb0; nid = x.nid; ppi = x.ppi; pend = x.pend; lnx = x.lnx;
    lnew = x.lnew; res = x.res; retry = x.retry; rv = x.rv; rb = v; dq =
    x.dq; glo = x.glo; ghi = x.ghi }

(** val a_dq : ast -> nat option list -> ast **)

let a_dq x v =
  { pc = x.pc; kd = x.kd; pvl = x.pvl; lb = x.lb; li = x.li; lpi = x.lpi;
    ltb0 = x.ltb0; nid = x.nid; ppi = x.ppi; pend = x.pend; lnx = x.lnx;
    lnew = x.lnew; res = x.res; retry = x.retry; rv = x.rv; rb = x.rb; dq =
    v; glo = x.glo; ghi = x.ghi }

(** val a_glo : ast -> nat -> ast **)

let a_glo x v =
  { pc = x.pc; kd = x.kd; pvl = x.pvl; lb = x.lb; li = x.li; lpi = x.lpi;
    ltb0 = x.ltb0; nid = x.nid; ppi = x.ppi; pend = x.pend; lnx = x.lnx;
    lnew = x.lnew; res = x.res; retry = x.retry; rv = x.rv; rb = x.rb; dq =
    x.dq; glo = v; ghi = x.ghi }

(** val a_ghi : ast -> nat -> ast **)

let a_ghi x v =
  { pc = x.pc; kd = x.kd; pvl = x.pvl; lb = x.lb; li = x.li; lpi = x.lpi;
    ltb0 = x.ltb0; nid = x.nid; ppi = x.ppi; pend = x.pend; lnx = x.lnx;
    lnew = x.lnew; res = x.res; retry = x.retry; rv = x.rv; rb = x.rb; dq =
    x.dq; glo = x.glo; ghi = v }

(** val s_hb : st -> nat -> st **)

let s_hb x v =
  { hb = v; hi = x.hi; hl = x.hl; tix = x.tix; tbk = x.tbk; heap = x.heap;
    a = x.a; pushed = x.pushed; nblk = x.nblk; badr = x.badr; born = x.born;
    cl = x.cl; rd = x.rd; rl = x.rl; got = x.got; bad_uaf = x.bad_uaf;
    bad_under = x.bad_under; bad_null = x.bad_null }

(** val s_hi : st -> nat -> st **)

let s_hi x v =
  { hb = x.hb; hi = v; hl = x.hl; tix = x.tix; tbk = x.tbk; heap = x.heap;
    a = x.a; pushed = x.pushed; nblk = x.nblk; badr = x.badr; born = x.born;
    cl = x.cl; rd = x.rd; rl = x.rl; got = x.got; bad_uaf = x.bad_uaf;
    bad_under = x.bad_under; bad_null = x.bad_null }

(** val s_hl : st -> bool -> st **)

let s_hl x v =
  { hb = x.hb; hi = x.hi; hl = v; tix = x.tix; tbk = x.tbk; heap = x.heap;
    a = x.a; pushed = x.pushed; nblk = x.nblk; badr = x.badr; born = x.born;
    cl = x.cl; rd = x.rd; rl = x.rl; got = x.got; bad_uaf = x.bad_uaf;
    bad_under = x.bad_under; bad_null = x.bad_null }

(** val s_tix : st -> nat -> st **)

let s_tix x v =
  { hb = x.hb; hi = x.hi; hl = x.hl; tix = v; tbk = x.tbk; heap = x.heap; a =
    x.a; pushed = x.pushed; nblk = x.nblk; badr = x.badr; born = x.born; cl =
    x.cl; rd = x.rd; rl = x.rl; got = x.got; bad_uaf = x.bad_uaf; bad_under =
    x.bad_under; bad_null = x.bad_null }

(** val s_tbk : st -> nat -> st **)

let s_tbk x v =
  { hb = x.hb; hi = x.hi; hl = x.hl; tix = x.tix; tbk = v; heap = x.heap; a =
    x.a; pushed = x.pushed; nblk = x.nblk; badr = x.badr; born = x.born; cl =
    x.cl; rd = x.rd; rl = x.rl; got = x.got; bad_uaf = x.bad_uaf; bad_under =
    x.bad_under; bad_null = x.bad_null }

(** val s_heap : st -> (nat -> blk) -> st **)

let s_heap x v =
  { hb = x.hb; hi = x.hi; hl = x.hl; tix = x.tix; tbk = x.tbk; heap = v; a =
    x.a; pushed = x.pushed; nblk = x.nblk; badr = x.badr; born = x.born; cl =
    x.cl; rd = x.rd; rl = x.rl; got = x.got; bad_uaf = x.bad_uaf; bad_under =
    x.bad_under; bad_null = x.bad_null }

(** val s_A : st -> (nat -> ast) -> st **)

let s_A x v =
  { hb = x.hb; hi = x.hi; hl = x.hl; tix = x.tix; tbk = x.tbk; heap = x.heap;
    a = v; pushed = x.pushed; nblk = x.nblk; badr = x.badr; born = x.born;
    cl = x.cl; rd = x.rd; rl = x.rl; got = x.got; bad_uaf = x.bad_uaf;
    bad_under = x.bad_under; bad_null = x.bad_null }

(** val s_pushed : st -> nat list -> st **)

let s_pushed x v =
  { hb = x.hb; hi = x.hi; hl = x.hl; tix = x.tix; tbk = x.tbk; heap = x.heap;
    a = x.a; pushed = v; nblk = x.nblk; badr = x.badr; born = x.born; cl =
    x.cl; rd = x.rd; rl = x.rl; got = x.got; bad_uaf = x.bad_uaf; bad_under =
    x.bad_under; bad_null = x.bad_null }

(** val s_nblk : st -> nat -> st **)

let s_nblk x v =
  { hb = x.hb; hi = x.hi; hl = x.hl; tix = x.tix; tbk = x.tbk; heap = x.heap;
    a = x.a; pushed = x.pushed; nblk = v; badr = x.badr; born = x.born; cl =
    x.cl; rd = x.rd; rl = x.rl; got = x.got; bad_uaf = x.bad_uaf; bad_under =
    x.bad_under; bad_null = x.bad_null }

(** val s_badr : st -> (nat -> nat) -> st **)

let s_badr x v =
  { hb = x.hb; hi = x.hi; hl = x.hl; tix = x.tix; tbk = x.tbk; heap = x.heap;
    a = x.a; pushed = x.pushed; nblk = x.nblk; badr = v; born = x.born; cl =
    x.cl; rd = x.rd; rl = x.rl; got = x.got; bad_uaf = x.bad_uaf; bad_under =
    x.bad_under; bad_null = x.bad_null }

(** val s_born : st -> (nat -> bool) -> st **)

let s_born x v =
  { hb = x.hb; hi = x.hi; hl = x.hl; tix = x.tix; tbk = x.tbk; heap = x.heap;
    a = x.a; pushed = x.pushed; nblk = x.nblk; badr = x.badr; born = v; cl =
    x.cl; rd = x.rd; rl = x.rl; got = x.got; bad_uaf = x.bad_uaf; bad_under =
    x.bad_under; bad_null = x.bad_null }

(** val s_cl : st -> (nat -> nat option) -> st **)

let s_cl x v =
  { hb = x.hb; hi = x.hi; hl = x.hl; tix = x.tix; tbk = x.tbk; heap = x.heap;
    a = x.a; pushed = x.pushed; nblk = x.nblk; badr = x.badr; born = x.born;
    cl = v; rd = x.rd; rl = x.rl; got = x.got; bad_uaf = x.bad_uaf;
    bad_under = x.bad_under; bad_null = x.bad_null }

(** val s_rd : st -> (nat -> bool) -> st **)

let s_rd x v =
  { hb = x.hb; hi = x.hi; hl = x.hl; tix = x.tix; tbk = x.tbk; heap = x.heap;
    a = x.a; pushed = x.pushed; nblk = x.nblk; badr = x.badr; born = x.born;
    cl = x.cl; rd = v; rl = x.rl; got = x.got; bad_uaf = x.bad_uaf;
    bad_under = x.bad_under; bad_null = x.bad_null }

(** val s_rl : st -> (nat -> bool) -> st **)

let s_rl x v =
  { hb = x.hb; hi = x.hi; hl = x.hl; tix = x.tix; tbk = x.tbk; heap = x.heap;
    a = x.a; pushed = x.pushed; nblk = x.nblk; badr = x.badr; born = x.born;
    cl = x.cl; rd = x.rd; rl = v; got = x.got; bad_uaf = x.bad_uaf;
    bad_under = x.bad_under; bad_null = x.bad_null }

(** val s_got : st -> ((nat * nat) * nat option) list -> st **)

let s_got x v =
  { hb = x.hb; hi = x.hi; hl = x.hl; tix = x.tix; tbk = x.tbk; heap = x.heap;
    a = x.a; pushed = x.pushed; nblk = x.nblk; badr = x.badr; born = x.born;
    cl = x.cl; rd = x.rd; rl = x.rl; got = v; bad_uaf = x.bad_uaf;
    bad_under = x.bad_under; bad_null = x.bad_null }

(** val s_bad_uaf : st -> bool -> st **)

let s_bad_uaf x v =
  { hb = x.hb; hi = x.hi; hl = x.hl; tix = x.tix; tbk = x.tbk; heap = x.heap;
    a = x.a; pushed = x.pushed; nblk = x.nblk; badr = x.badr; born = x.born;
    cl = x.cl; rd = x.rd; rl = x.rl; got = x.got; bad_uaf = v; bad_under =
    x.bad_under; bad_null = x.bad_null }

(** val s_bad_under : st -> bool -> st **)

let s_bad_under x v =
  { hb = x.hb; hi = x.hi; hl = x.hl; tix = x.tix; tbk = x.tbk; heap = x.heap;
    a = x.a; pushed = x.pushed; nblk = x.nblk; badr = x.badr; born = x.born;
    cl = x.cl; rd = x.rd; rl = x.rl; got = x.got; bad_uaf = x.bad_uaf;
    bad_under = v; bad_null = x.bad_null }

(** val s_bad_null : st -> bool -> st **)

let s_bad_null x v =
  { hb = x.hb; hi = x.hi; hl = x.hl; tix = x.tix; tbk = x.tbk; heap = x.heap;
    a = x.a; pushed = x.pushed; nblk = x.nblk; badr = x.badr; born = x.born;
    cl = x.cl; rd = x.rd; rl = x.rl; got = x.got; bad_uaf = x.bad_uaf;
    bad_under = x.bad_under; bad_null = v }

(** val upd : (nat -> 'a1) -> nat -> 'a1 -> nat -> 'a1 **)

let upd f i v j =
  if Nat.eqb j i then v else f j

(** val inr : nat -> nat -> nat -> bool **)

let inr lo hi0 i =
  (&&) (Nat.leb lo i) (Nat.ltb i hi0)

(** val updr : (nat -> 'a1) -> nat -> nat -> 'a1 -> nat -> 'a1 **)

let updr f lo hi0 v j =
  if inr lo hi0 j then v else f j

type action =
| Call of nat * opk * nat
| Step of nat * nat
| Ret of nat

(** val is_bulk : opk -> bool **)

let is_bulk = function
| KBulk -> true
| KSteal -> true
| _ -> false

(** val is_local : opk -> bool **)

let is_local = function
| KLocal -> true
| _ -> false

(** val is_steal : opk -> bool **)

let is_steal = function
| KSteal -> true
| _ -> false

(** val is_own : opk -> bool **)

let is_own = function
| KOwn -> true
| _ -> false

(** val call_ok : nat -> opk -> bool **)

let call_ok a0 = function
| KPush -> Nat.eqb a0 O
| KLocal -> Nat.eqb a0 O
| KEmpty -> true
| _ -> negb (Nat.eqb a0 O)

(** val entry : opk -> pcT **)

let entry = function
| KPush -> OW
| KEmpty -> E0
| KOwn -> Ext
| _ -> X0

(** val emptyck : nat -> ast -> bool **)

let emptyck b x =
  (&&) (Nat.eqb x.lb x.ltb0) (Nat.leb (Nat.modulo x.lpi b) x.li)

(** val newid : nat -> ast -> nat **)

let newid b x =
  if is_bulk x.kd
  then if Nat.eqb x.lb x.ltb0 then Nat.modulo x.lpi b else O
  else O

(** val locked : nat -> ast -> bool **)

let locked b x =
  if is_bulk x.kd then Nat.eqb x.nid O else Nat.eqb (S x.li) b

(** val nexti : ast -> nat **)

let nexti x =
  if is_bulk x.kd then x.nid else S x.li

(** val setA : st -> nat -> ast -> st **)

let setA s a0 x =
  s_A s (upd s.a a0 x)

(** val deref : st -> nat -> st **)

let deref s b =
  s_bad_uaf s ((||) s.bad_uaf (negb (s.heap b).alive))

(** val fresh_blk : nat -> nat -> nat -> blk **)

let fresh_blk b start k =
  { alive = true; bstart = start; bno = k; used = b; next = None; slots =
    (fun _ -> None) }

(** val after_loads : nat -> st -> nat -> ast -> st **)

let after_loads b s a0 x =
  if emptyck b x
  then setA s a0 (a_pc x Idle)
  else setA s a0 (a_pc (a_nid x (newid b x)) XC)

(** val release : st -> nat -> nat -> st **)

let release s b n0 =
  let k = s.heap b in
  let old = k.used in
  let s1 = deref s b in
  let s2 = s_bad_under s1 ((||) s1.bad_under (Nat.ltb old n0)) in
  s_heap s2
    (upd s2.heap b
      (b_alive (b_used k (sub old n0)) ((&&) k.alive (negb (Nat.eqb old n0)))))

(** val step : nat -> bool -> st -> action -> st option **)

let step b reuse s = function
| Call (a0, k, v) ->
  let me = s.a a0 in
  (match me.pc with
   | Idle ->
     if call_ok a0 k
     then Some
            (setA s a0
              (a_rb
                (a_rv
                  (a_res
                    (a_retry (a_pvl (a_kd (a_pc me (entry k)) k) v) false) [])
                  []) false))
     else None
   | _ -> None)
| Step (a0, x) ->
  let me = s.a a0 in
  (match me.pc with
   | OW ->
     let s1 = deref s s.tbk in
     let k = s1.heap s1.tbk in
     let s2 =
       s_heap s1
         (upd s1.heap s1.tbk
           (b_slots k (upd k.slots (Nat.modulo s1.tix b) (Some me.pvl))))
     in
     let s3 = s_pushed s2 (app s2.pushed (me.pvl :: [])) in
     Some
     (setA s3 a0
       (a_pc me (if Nat.eqb (Nat.modulo (S s.tix) b) O then ON else OC)))
   | ON ->
     if (&&) (negb (s.heap x).alive) ((||) reuse (negb (s.born x)))
     then let s1 = deref s s.tbk in
          let h1 = upd s1.heap x (fresh_blk b (S s1.tix) s1.nblk) in
          let h2 = upd h1 s1.tbk (b_next (h1 s1.tbk) (Some x)) in
          let s2 = s_heap s1 h2 in
          let s3 =
            s_born (s_badr (s_nblk s2 (S s2.nblk)) (upd s2.badr s2.nblk x))
              (upd s2.born x true)
          in
          Some (setA s3 a0 (a_pc (a_lnew me x) OB))
     else None
   | OB -> Some (setA (s_tbk s me.lnew) a0 (a_pc me OC))
   | OC -> Some (setA (s_tix s (S s.tix)) a0 (a_pc me Idle))
   | X0 ->
     let me1 = a_li (a_lb me s.hb) s.hi in
     if is_local me.kd
     then Some (after_loads b s a0 (a_ltb (a_lpi me1 s.tix) s.tbk))
     else Some (setA s a0 (a_pc me1 X1))
   | X1 -> Some (setA s a0 (a_pc (a_lpi me s.tix) X2))
   | X2 -> Some (after_loads b s a0 (a_ltb me s.tbk))
   | XC ->
     if (&&) ((&&) (Nat.eqb s.hb me.lb) (Nat.eqb s.hi me.li)) (negb s.hl)
     then if locked b me
          then Some (setA (s_hl s true) a0 (a_pc me XS))
          else let lo = add (s.heap s.hb).bstart me.li in
               let hi' = add (s.heap s.hb).bstart (nexti me) in
               let s1 = s_hi s (nexti me) in
               let s2 = s_cl s1 (updr s1.cl lo hi' (Some a0)) in
               Some (setA s2 a0 (a_pc (a_ghi (a_glo me lo) hi') XS))
     else let me1 = a_li (a_lb me s.hb) s.hi in
          if is_local me.kd
          then Some (after_loads b s a0 me1)
          else Some (setA s a0 (a_pc (a_retry me1 true) X1))
   | XS ->
     let s1 = deref s me.lb in
     let bs = (s.heap me.lb).bstart in
     let me1 = a_ppi me (add bs me.li) in
     if locked b me
     then if is_local me.kd
          then Some
                 (setA s1 a0
                   (a_pc (a_pend me1 (S (add bs me.li)))
                     (if Nat.leb me.lpi (add bs me.li) then XR else XN)))
          else Some (setA s1 a0 (a_pc me1 XT))
     else if is_local me.kd
          then if Nat.leb me.lpi (add bs me.li)
               then Some
                      (setA s1 a0 (a_pc (a_pend me1 (S (add bs me.li))) LK))
               else Some
                      (setA s1 a0 (a_pc (a_pend me1 (S (add bs me.li))) XG))
          else Some (setA s1 a0 (a_pc (a_pend me1 (add bs (nexti me))) XW))
   | XT ->
     if Nat.leb s.tix me.ppi
     then Some (setA s a0 (a_pc me XR))
     else if is_bulk me.kd
          then let e = Nat.min (add (sub me.ppi me.li) b) s.tix in
               Some
               (setA s a0
                 (a_pc (a_pend me e)
                   (if Nat.eqb (Nat.modulo e b) O then XN else XH2)))
          else Some (setA s a0 (a_pc (a_pend me (S me.ppi)) XN))
   | XR ->
     Some (setA (s_hl (s_hi (s_hb s me.lb) me.li) false) a0 (a_pc me Idle))
   | XN ->
     let s1 = deref s me.lb in
     Some (setA s1 a0 (a_pc (a_lnx me (s.heap me.lb).next) XH0))
   | XH0 ->
     let s1 =
       match me.lnx with
       | Some n0 -> s_hl (s_hi (s_hb s n0) O) false
       | None -> s_bad_null (s_hl (s_hi (s_hb s O) O) false) true
     in
     let s2 = s_cl s1 (updr s1.cl me.ppi me.pend (Some a0)) in
     Some (setA s2 a0 (a_pc (a_ghi (a_glo me me.ppi) me.pend) XG))
   | XH2 ->
     let s1 = s_hl (s_hi (s_hb s me.lb) (Nat.modulo me.pend b)) false in
     let s2 = s_cl s1 (updr s1.cl me.ppi me.pend (Some a0)) in
     Some (setA s2 a0 (a_pc (a_ghi (a_glo me me.ppi) me.pend) XG))
   | XW ->
     if Nat.leb me.pend s.tix then Some (setA s a0 (a_pc me XG)) else Some s
   | XG ->
     let s1 = deref s me.lb in
     let n0 = sub me.pend me.ppi in
     let k = s.heap me.lb in
     let vals = map (fun j -> k.slots (add me.li j)) (seq O n0) in
     let s2 =
       s_got s1
         (app s1.got
           (map (fun j -> ((a0, (add me.ppi j)), (k.slots (add me.li j))))
             (seq O n0)))
     in
     let s3 = s_rd s2 (updr s2.rd me.ppi me.pend true) in
     Some (setA s3 a0 (a_pc (a_res me vals) XM))
   | XM ->
     let s1 = release s me.lb (sub me.pend me.ppi) in
     let s2 = s_rl s1 (updr s1.rl me.ppi me.pend true) in
     if is_steal me.kd
     then Some
            (setA s2 a0
              (a_pc
                (a_dq
                  (a_rv me
                    (match rev me.res with
                     | [] -> []
                     | v :: _ -> v :: [])) (app me.dq (removelast me.res)))
                Ext))
     else Some (setA s2 a0 (a_pc (a_rv me me.res) Idle))
   | LK -> Some (setA (s_tix s (S me.lpi)) a0 (a_pc me LKr))
   | LKr ->
     let s1 = release s me.lb (S O) in
     let s2 = s_rl s1 (updr s1.rl me.ppi me.pend true) in
     Some (setA s2 a0 (a_pc me Idle))
   | E0 -> Some (setA s a0 (a_pc (a_li (a_lb me s.hb) s.hi) E1))
   | E1 -> Some (setA s a0 (a_pc (a_lpi me s.tix) E2))
   | E2 ->
     let me1 = a_ltb me s.tbk in
     Some
     (setA s a0
       (a_pc
         (a_rb me1
           ((&&) (Nat.eqb me1.lb me1.ltb0)
             (Nat.eqb me1.li (Nat.modulo me1.lpi b)))) Idle))
   | _ -> None)
| Ret a0 ->
  let me = s.a a0 in
  (match me.pc with
   | Ext ->
     if is_own me.kd
     then (match me.dq with
           | [] -> Some (setA s a0 (a_pc me Idle))
           | v :: r ->
             Some (setA s a0 (a_pc (a_dq (a_rv me (v :: [])) r) Idle)))
     else Some (setA s a0 (a_pc me Idle))
   | _ -> None)

(** val ast0 : ast **)

let ast0 =
  { pc = Idle; kd = KEmpty; pvl = O; lb = O; li = O; lpi = O; ltb0 = O; nid =
    O; ppi = O; pend = O; lnx = None; lnew = O; res = []; retry = false; rv =
    []; rb = false; dq = []; glo = O; ghi = O }

(** val dead_blk : blk **)

let dead_blk =
  { alive = false; bstart = O; bno = O; used = O; next = None; slots =
    (fun _ -> None) }

(** val init : nat -> st **)

let init b =
  { hb = O; hi = O; hl = false; tix = O; tbk = O; heap = (fun a0 ->
    if Nat.eqb a0 O then fresh_blk b O O else dead_blk); a = (fun _ -> ast0);
    pushed = []; nblk = (S O); badr = (fun _ -> O); born = (fun a0 ->
    Nat.eqb a0 O); cl = (fun _ -> None); rd = (fun _ -> false); rl =
    (fun _ -> false); got = []; bad_uaf = false; bad_under = false;
    bad_null = false }

(** val run : nat -> bool -> st -> action list -> st option **)

let rec run b reuse s = function
| [] -> Some s
| a0 :: l' ->
  (match step b reuse s a0 with
   | Some s' -> run b reuse s' l'
   | None -> None)

type aux = { amap : (z * nat) list; nxt : nat; rcnt : (nat -> nat) }

(** val aux0 : aux **)

let aux0 =
  { amap = []; nxt = (S O); rcnt = (fun _ -> O) }

(** val set_rcnt : aux -> nat -> nat -> aux **)

let set_rcnt x a0 n0 =
  { amap = x.amap; nxt = x.nxt; rcnt = (upd x.rcnt a0 n0) }

(** val look : (z * nat) list -> z -> nat option **)

let rec look m z0 =
  match m with
  | [] -> None
  | p :: r -> let (z', n0) = p in if Z.eqb z0 z' then Some n0 else look r z0

(** val rlook : (z * nat) list -> nat -> z option **)

let rec rlook m n0 =
  match m with
  | [] -> None
  | p :: r ->
    let (z0, n') = p in if Nat.eqb n0 n' then Some z0 else rlook r n0

(** val bind : aux -> z -> nat -> aux option **)

let bind x z0 n0 =
  match look x.amap z0 with
  | Some m -> if Nat.eqb m n0 then Some x else None
  | None ->
    (match rlook x.amap n0 with
     | Some _ -> None
     | None ->
       Some { amap = ((z0, n0) :: x.amap); nxt = (Nat.max x.nxt (S n0));
         rcnt = x.rcnt })

(** val choose : aux -> z -> nat * aux **)

let choose x z0 =
  match look x.amap z0 with
  | Some m -> (m, x)
  | None ->
    (x.nxt, { amap = ((z0, x.nxt) :: x.amap); nxt = (S x.nxt); rcnt =
      x.rcnt })

(** val pc_eqb : pcT -> pcT -> bool **)

let pc_eqb x y =
  match x with
  | Idle -> (match y with
             | Idle -> true
             | _ -> false)
  | Ext -> (match y with
            | Ext -> true
            | _ -> false)
  | OW -> (match y with
           | OW -> true
           | _ -> false)
  | ON -> (match y with
           | ON -> true
           | _ -> false)
  | OB -> (match y with
           | OB -> true
           | _ -> false)
  | OC -> (match y with
           | OC -> true
           | _ -> false)
  | X0 -> (match y with
           | X0 -> true
           | _ -> false)
  | X1 -> (match y with
           | X1 -> true
           | _ -> false)
  | X2 -> (match y with
           | X2 -> true
           | _ -> false)
  | XC -> (match y with
           | XC -> true
           | _ -> false)
  | XS -> (match y with
           | XS -> true
           | _ -> false)
  | XT -> (match y with
           | XT -> true
           | _ -> false)
  | XR -> (match y with
           | XR -> true
           | _ -> false)
  | XN -> (match y with
           | XN -> true
           | _ -> false)
  | XH0 -> (match y with
            | XH0 -> true
            | _ -> false)
  | XH2 -> (match y with
            | XH2 -> true
            | _ -> false)
  | XW -> (match y with
           | XW -> true
           | _ -> false)
  | XG -> (match y with
           | XG -> true
           | _ -> false)
  | XM -> (match y with
           | XM -> true
           | _ -> false)
  | LK -> (match y with
           | LK -> true
           | _ -> false)
  | LKr -> (match y with
            | LKr -> true
            | _ -> false)
  | E0 -> (match y with
           | E0 -> true
           | _ -> false)
  | E1 -> (match y with
           | E1 -> true
           | _ -> false)
  | E2 -> (match y with
           | E2 -> true
           | _ -> false)

(** val kd_eqb : opk -> opk -> bool **)

let kd_eqb x y =
  match x with
  | KPush -> (match y with
              | KPush -> true
              | _ -> false)
  | KLocal -> (match y with
               | KLocal -> true
               | _ -> false)
  | KPop -> (match y with
             | KPop -> true
             | _ -> false)
  | KBulk -> (match y with
              | KBulk -> true
              | _ -> false)
  | KSteal -> (match y with
               | KSteal -> true
               | _ -> false)
  | KEmpty -> (match y with
               | KEmpty -> true
               | _ -> false)
  | KOwn -> (match y with
             | KOwn -> true
             | _ -> false)

(** val zb : z -> bool **)

let zb v =
  negb (Z.eqb v Z0)

(** val zlock : z -> bool **)

let zlock w =
  Z.testbit w (Zpos (XI (XI (XI (XI (XI XH))))))

(** val zlow : z -> z **)

let zlow w =
  Z.modulo w (Zpos (XO (XO (XO (XO (XO (XO (XO (XO (XO (XO (XO (XO (XO (XO
    (XO (XO (XO (XO (XO (XO (XO (XO (XO (XO (XO (XO (XO (XO (XO (XO (XO (XO
    (XO (XO (XO (XO (XO (XO (XO (XO (XO (XO (XO (XO (XO (XO (XO (XO (XO (XO
    (XO (XO (XO (XO (XO (XO (XO (XO (XO (XO (XO (XO (XO
    XH))))))))))))))))))))))))))))))))))))))))))))))))))))))))))))))))

(** val zidx : nat -> z -> nat **)

let zidx b w =
  Z.to_nat (Z.modulo (zlow w) (Z.of_nat b))

(** val zadr : nat -> z -> z **)

let zadr b w =
  Z.sub (zlow w) (Z.modulo (zlow w) (Z.of_nat b))

(** val zeqn : z -> nat -> bool **)

let zeqn v n0 =
  Z.eqb v (Z.of_nat n0)

(** val chk_head : nat -> aux -> z -> nat -> nat -> bool -> aux option **)

let chk_head b x w b0 i l =
  if (&&) (eqb (zlock w) l) (Nat.eqb (zidx b w) i)
  then bind x (zadr b w) b0
  else None

(** val chk_ptr : aux -> z -> nat option -> aux option **)

let chk_ptr x v = function
| Some n0 -> if zb v then bind x v n0 else None
| None -> if zb v then None else Some x

(** val rvis : nat option list -> z -> z -> bool **)

let rvis r some v =
  match r with
  | [] -> negb (zb some)
  | o :: l ->
    (match o with
     | Some n0 ->
       (match l with
        | [] -> (&&) (zb some) (zeqn v n0)
        | _ :: _ -> false)
     | None -> false)

(** val go :
    nat -> st -> aux option -> bool -> action list -> (st -> bool) ->
    (st * aux) option **)

let go b s x pre acts post =
  match x with
  | Some x' ->
    if pre
    then (match run b true s acts with
          | Some s' -> if post s' then Some (s', x') else None
          | None -> None)
    else None
  | None -> None

(** val at_ : st -> nat -> pcT -> opk -> bool **)

let at_ s a0 p k =
  (&&) (pc_eqb (s.a a0).pc p) (kd_eqb (s.a a0).kd k)

(** val tt_ : st -> bool **)

let tt_ _ =
  true

(** val atk : st -> nat -> pcT -> opk -> bool **)

let atk s a0 p k =
  (&&) (pc_eqb (s.a a0).pc p)
    (match k with
     | KBulk -> is_bulk (s.a a0).kd
     | _ -> kd_eqb (s.a a0).kd k)

(** val ev_head_load :
    nat -> st -> aux -> nat -> opk -> z -> (st * aux) option **)

let ev_head_load b s x a0 k w =
  go b s (chk_head b x w s.hb s.hi s.hl) (atk s a0 X0 k) ((Step (a0,
    O)) :: []) tt_

(** val ev_tix_load :
    nat -> st -> aux -> nat -> opk -> pcT -> bool -> z -> (st * aux) option **)

let ev_tix_load b s x a0 k p r v =
  go b s (Some x)
    ((&&) ((&&) (atk s a0 p k) (eqb (s.a a0).retry r)) (zeqn v s.tix)) ((Step
    (a0, O)) :: []) tt_

(** val ev_tbk_load :
    nat -> st -> aux -> nat -> opk -> bool -> z -> (st * aux) option **)

let ev_tbk_load b s x a0 k r v =
  go b s (bind x v s.tbk) ((&&) (atk s a0 X2 k) (eqb (s.a a0).retry r))
    ((Step (a0, O)) :: []) tt_

(** val ev_cas : nat -> st -> aux -> nat -> opk -> z -> (st * aux) option **)

let ev_cas b s x a0 k ok =
  go b s (Some x) (atk s a0 XC k) ((Step (a0, O)) :: []) (fun s' ->
    eqb (pc_eqb (s'.a a0).pc XS) (zb ok))

(** val ev_start :
    nat -> st -> aux -> nat -> opk -> z -> (st * aux) option **)

let ev_start b s x a0 k v =
  go b s (Some x) ((&&) (atk s a0 XS k) (zeqn v (s.heap (s.a a0).lb).bstart))
    ((Step (a0, O)) :: []) tt_

(** val ev_restore :
    nat -> st -> aux -> nat -> opk -> z -> (st * aux) option **)

let ev_restore b s x a0 k w =
  go b s (chk_head b x w (s.a a0).lb (s.a a0).li false) (atk s a0 XR k)
    ((Step (a0, O)) :: []) tt_

(** val ev_next : nat -> st -> aux -> nat -> opk -> z -> (st * aux) option **)

let ev_next b s x a0 k v =
  go b s (chk_ptr x v (s.heap (s.a a0).lb).next) (atk s a0 XN k) ((Step (a0,
    O)) :: []) tt_

(** val ev_store_next :
    nat -> st -> aux -> nat -> opk -> z -> (st * aux) option **)

let ev_store_next b s x a0 k w =
  go b s
    (match (s.a a0).lnx with
     | Some n0 -> chk_head b x w n0 O false
     | None -> if zb w then None else Some x) (atk s a0 XH0 k) ((Step (a0,
    O)) :: []) tt_

(** val ev_store_same :
    nat -> st -> aux -> nat -> opk -> z -> (st * aux) option **)

let ev_store_same b s x a0 k w =
  go b s (chk_head b x w (s.a a0).lb (Nat.modulo (s.a a0).pend b) false)
    (atk s a0 XH2 k) ((Step (a0, O)) :: []) tt_

(** val accept_ev : nat -> (st * aux) -> z list -> (st * aux) option **)

let accept_ev b sx e =
  let (s, x) = sx in
  (match e with
   | [] -> None
   | code :: l ->
     (match l with
      | [] -> None
      | za :: l0 ->
        (match l0 with
         | [] -> None
         | o :: l1 ->
           (match l1 with
            | [] -> None
            | v :: l2 ->
              (match l2 with
               | [] ->
                 let t = Z.to_nat za in
                 if (&&) (Z.leb (Zpos (XO (XO (XI (XO XH))))) code)
                      (pc_eqb (s.a t).pc Ext)
                 then Some (s, x)
                 else (match code with
                       | Zpos p ->
                         (match p with
                          | XI p0 ->
                            (match p0 with
                             | XI p1 ->
                               (match p1 with
                                | XI p2 ->
                                  (match p2 with
                                   | XI p3 ->
                                     (match p3 with
                                      | XI p4 ->
                                        (match p4 with
                                         | XH -> ev_cas b s x t KBulk v
                                         | _ -> None)
                                      | XO _ -> None
                                      | XH ->
                                        ev_tix_load b s x t KPop X1 false v)
                                   | XO p3 ->
                                     (match p3 with
                                      | XI p4 ->
                                        (match p4 with
                                         | XH ->
                                           ev_store_next b s x O KLocal v
                                         | _ -> None)
                                      | XO p4 ->
                                        (match p4 with
                                         | XI _ -> None
                                         | XO p5 ->
                                           (match p5 with
                                            | XH ->
                                              ev_tix_load b s x t KBulk X1
                                                true v
                                            | _ -> None)
                                         | XH ->
                                           ev_tix_load b s x t KPop XW
                                             (s.a t).retry v)
                                      | XH ->
                                        go b s (Some x)
                                          ((&&) (at_ s O OC KPush)
                                            (zeqn v (S s.tix))) ((Step (O,
                                          O)) :: []) tt_)
                                   | XH ->
                                     go b s (Some x)
                                       ((&&) (at_ s t Idle KEmpty)
                                         (eqb (s.a t).rb (zb v))) [] tt_)
                                | XO p2 ->
                                  (match p2 with
                                   | XI p3 ->
                                     (match p3 with
                                      | XI p4 ->
                                        (match p4 with
                                         | XO p5 ->
                                           (match p5 with
                                            | XH ->
                                              go b s (Some x)
                                                ((&&) (at_ s t E1 KEmpty)
                                                  (zeqn v s.tix)) ((Step (t,
                                                O)) :: []) tt_
                                            | _ -> None)
                                         | _ -> None)
                                      | _ -> None)
                                   | XO p3 ->
                                     (match p3 with
                                      | XI p4 ->
                                        (match p4 with
                                         | XH -> ev_cas b s x O KLocal v
                                         | _ -> None)
                                      | XO p4 ->
                                        (match p4 with
                                         | XI _ -> None
                                         | XO p5 ->
                                           (match p5 with
                                            | XH -> ev_next b s x t KBulk v
                                            | _ -> None)
                                         | XH ->
                                           ev_tix_load b s x t KPop XT
                                             (s.a t).retry v)
                                      | XH -> None)
                                   | XH ->
                                     go b s (Some x)
                                       (kd_eqb (s.a t).kd KSteal)
                                       (if pc_eqb (s.a t).pc Ext
                                        then (Ret t) :: []
                                        else []) (fun s' ->
                                       (&&) (pc_eqb (s'.a t).pc Idle)
                                         (rvis (s'.a t).rv o v)))
                                | XH ->
                                  go b s (Some x) true ((Call (t, KBulk,
                                    O)) :: []) tt_)
                             | XO p1 ->
                               (match p1 with
                                | XI p2 ->
                                  (match p2 with
                                   | XI p3 ->
                                     (match p3 with
                                      | XI p4 ->
                                        (match p4 with
                                         | XH ->
                                           ev_tix_load b s x t KBulk X1 false
                                             v
                                         | _ -> None)
                                      | _ -> None)
                                   | XO p3 ->
                                     (match p3 with
                                      | XI p4 ->
                                        (match p4 with
                                         | XH -> ev_restore b s x O KLocal v
                                         | _ -> None)
                                      | XO p4 ->
                                        (match p4 with
                                         | XI _ -> None
                                         | XO p5 ->
                                           (match p5 with
                                            | XH ->
                                              ev_store_same b s x t KBulk v
                                            | _ -> None)
                                         | XH -> ev_next b s x t KPop v)
                                      | XH ->
                                        let (n0, x') = choose x v in
                                        go b s (Some x')
                                          ((&&) (at_ s O ON KPush) (zb v))
                                          ((Step (O, n0)) :: []) tt_)
                                   | XH ->
                                     go b s (Some x) (at_ s t Ext KOwn) ((Ret
                                       t) :: []) (fun s' ->
                                       rvis (s'.a t).rv o v))
                                | XO p2 ->
                                  (match p2 with
                                   | XI p3 ->
                                     (match p3 with
                                      | XO p4 ->
                                        (match p4 with
                                         | XH ->
                                           ev_tbk_load b s x t KPop true v
                                         | _ -> None)
                                      | _ -> None)
                                   | XO p3 ->
                                     (match p3 with
                                      | XI p4 ->
                                        (match p4 with
                                         | XO p5 ->
                                           (match p5 with
                                            | XH ->
                                              let a0 =
                                                if (||)
                                                     (pc_eqb (s.a t).pc XG)
                                                     (pc_eqb (s.a t).pc XM)
                                                then t
                                                else O
                                              in
                                              if pc_eqb (s.a a0).pc XG
                                              then go b s (Some
                                                     (set_rcnt x a0 (S O)))
                                                     (zeqn v (s.a a0).li)
                                                     ((Step (a0, O)) :: [])
                                                     tt_
                                              else go b s (Some
                                                     (set_rcnt x a0 (S
                                                       (x.rcnt a0))))
                                                     ((&&)
                                                       ((&&)
                                                         (pc_eqb (s.a a0).pc
                                                           XM)
                                                         (Nat.ltb (x.rcnt a0)
                                                           (sub (s.a a0).pend
                                                             (s.a a0).ppi)))
                                                       (zeqn v
                                                         (add (s.a a0).li
                                                           (x.rcnt a0)))) []
                                                     tt_
                                            | _ -> None)
                                         | _ -> None)
                                      | XO p4 ->
                                        (match p4 with
                                         | XI _ -> None
                                         | XO p5 ->
                                           (match p5 with
                                            | XH ->
                                              ev_tix_load b s x t KBulk XT
                                                (s.a t).retry v
                                            | _ -> None)
                                         | XH -> ev_cas b s x t KPop v)
                                      | XH -> None)
                                   | XH ->
                                     go b s (Some x)
                                       ((&&) (at_ s t Idle KBulk)
                                         (match nth_error (s.a t).rv
                                                  (Z.to_nat o) with
                                          | Some o0 ->
                                            (match o0 with
                                             | Some n0 -> zeqn v n0
                                             | None -> false)
                                          | None -> false)) [] tt_)
                                | XH ->
                                  go b s (Some x) true ((Call (t, KPop,
                                    O)) :: []) tt_)
                             | XH ->
                               go b s (Some x) true ((Call (O, KLocal,
                                 O)) :: []) tt_)
                          | XO p0 ->
                            (match p0 with
                             | XI p1 ->
                               (match p1 with
                                | XI p2 ->
                                  (match p2 with
                                   | XI p3 ->
                                     (match p3 with
                                      | XI p4 ->
                                        (match p4 with
                                         | XH ->
                                           ev_tbk_load b s x t KBulk false v
                                         | _ -> None)
                                      | XO _ -> None
                                      | XH -> ev_head_load b s x t KPop v)
                                   | XO p3 ->
                                     (match p3 with
                                      | XI p4 ->
                                        (match p4 with
                                         | XH -> ev_next b s x O KLocal v
                                         | _ -> None)
                                      | XO p4 ->
                                        (match p4 with
                                         | XI _ -> None
                                         | XO p5 ->
                                           (match p5 with
                                            | XH ->
                                              ev_tix_load b s x t KBulk XW
                                                (s.a t).retry v
                                            | _ -> None)
                                         | XH -> ev_store_next b s x t KPop v)
                                      | XH ->
                                        go b s (bind x v (s.a O).lnew)
                                          (at_ s O OB KPush) ((Step (O,
                                          O)) :: []) tt_)
                                   | XH ->
                                     go b s (Some x) true ((Call (t, KEmpty,
                                       O)) :: []) tt_)
                                | XO p2 ->
                                  (match p2 with
                                   | XI p3 ->
                                     (match p3 with
                                      | XI p4 ->
                                        (match p4 with
                                         | XO p5 ->
                                           (match p5 with
                                            | XH ->
                                              go b s
                                                (chk_head b x v s.hb s.hi
                                                  s.hl) (at_ s t E0 KEmpty)
                                                ((Step (t, O)) :: []) tt_
                                            | _ -> None)
                                         | _ -> None)
                                      | _ -> None)
                                   | XO p3 ->
                                     (match p3 with
                                      | XI p4 ->
                                        (match p4 with
                                         | XH -> ev_head_load b s x O KLocal v
                                         | _ -> None)
                                      | XO p4 ->
                                        (match p4 with
                                         | XI _ -> None
                                         | XO p5 ->
                                           (match p5 with
                                            | XH -> ev_restore b s x t KBulk v
                                            | _ -> None)
                                         | XH -> ev_start b s x t KPop v)
                                      | XH -> None)
                                   | XH ->
                                     go b s (Some x) true ((Call (t, KSteal,
                                       O)) :: []) tt_)
                                | XH ->
                                  go b s (Some x)
                                    ((&&) (at_ s t Idle KPop)
                                      (rvis (s.a t).rv o v)) [] tt_)
                             | XO p1 ->
                               (match p1 with
                                | XI p2 ->
                                  (match p2 with
                                   | XI p3 ->
                                     (match p3 with
                                      | XI p4 ->
                                        (match p4 with
                                         | XI _ -> None
                                         | XO p5 ->
                                           (match p5 with
                                            | XH ->
                                              go b s (bind x v s.tbk)
                                                (at_ s t E2 KEmpty) ((Step
                                                (t, O)) :: []) tt_
                                            | _ -> None)
                                         | XH -> ev_head_load b s x t KBulk v)
                                      | _ -> None)
                                   | XO p3 ->
                                     (match p3 with
                                      | XI p4 ->
                                        (match p4 with
                                         | XH -> ev_start b s x O KLocal v
                                         | _ -> None)
                                      | XO p4 ->
                                        (match p4 with
                                         | XI _ -> None
                                         | XO p5 ->
                                           (match p5 with
                                            | XH ->
                                              ev_store_next b s x t KBulk v
                                            | _ -> None)
                                         | XH -> ev_restore b s x t KPop v)
                                      | XH ->
                                        go b s (Some x)
                                          ((&&) (at_ s O OW KPush)
                                            (zeqn v s.tix)) ((Step (O,
                                          O)) :: []) tt_)
                                   | XH ->
                                     go b s (Some x) true ((Call (t, KOwn,
                                       O)) :: []) tt_)
                                | XO p2 ->
                                  (match p2 with
                                   | XI p3 ->
                                     (match p3 with
                                      | XI p4 ->
                                        (match p4 with
                                         | XH ->
                                           go b s (Some x)
                                             ((&&) (at_ s O LK KLocal)
                                               (zeqn v (S (s.a O).lpi)))
                                             ((Step (O, O)) :: []) tt_
                                         | _ -> None)
                                      | XO p4 ->
                                        (match p4 with
                                         | XI _ -> None
                                         | XO p5 ->
                                           (match p5 with
                                            | XH ->
                                              ev_tbk_load b s x t KBulk true v
                                            | _ -> None)
                                         | XH ->
                                           ev_tix_load b s x t KPop X1 true v)
                                      | XH -> None)
                                   | XO p3 ->
                                     (match p3 with
                                      | XI p4 ->
                                        (match p4 with
                                         | XO p5 ->
                                           (match p5 with
                                            | XH ->
                                              let a0 =
                                                if pc_eqb (s.a t).pc XM
                                                then t
                                                else O
                                              in
                                              if pc_eqb (s.a a0).pc XM
                                              then go b s (Some x)
                                                     ((&&)
                                                       (Nat.eqb (x.rcnt a0)
                                                         (sub (s.a a0).pend
                                                           (s.a a0).ppi))
                                                       (zeqn v
                                                         (s.heap (s.a a0).lb).used))
                                                     ((Step (a0, O)) :: [])
                                                     tt_
                                              else go b s (Some x)
                                                     ((&&)
                                                       (pc_eqb (s.a a0).pc
                                                         LKr)
                                                       (zeqn v
                                                         (s.heap (s.a a0).lb).used))
                                                     ((Step (a0, O)) :: [])
                                                     tt_
                                            | _ -> None)
                                         | _ -> None)
                                      | XO p4 ->
                                        (match p4 with
                                         | XI _ -> None
                                         | XO p5 ->
                                           (match p5 with
                                            | XH -> ev_start b s x t KBulk v
                                            | _ -> None)
                                         | XH ->
                                           ev_tbk_load b s x t KPop false v)
                                      | XH -> None)
                                   | XH ->
                                     go b s (Some x)
                                       ((&&) (at_ s t Idle KBulk)
                                         (zeqn o (length (s.a t).rv))) [] tt_)
                                | XH ->
                                  go b s (Some x)
                                    ((&&) (at_ s O Idle KLocal)
                                      (rvis (s.a O).rv o v)) [] tt_)
                             | XH ->
                               go b s (Some x) (at_ s O Idle KPush) [] tt_)
                          | XH ->
                            go b s (Some x) true ((Call (O, KPush,
                              (Z.to_nat v))) :: []) tt_)
                       | _ -> None)
               | _ :: _ -> None)))))

(** val nodupb : nat list -> bool **)

let rec nodupb = function
| [] -> true
| i :: r -> (&&) (negb (existsb (Nat.eqb i) r)) (nodupb r)

(** val oeqb : nat option -> nat option -> bool **)

let oeqb x y =
  match x with
  | Some a0 -> (match y with
                | Some b -> Nat.eqb a0 b
                | None -> false)
  | None -> (match y with
             | Some _ -> false
             | None -> true)

(** val got_ok : st -> bool **)

let got_ok s =
  (&&) (nodupb (map (fun g -> snd (fst g)) s.got))
    (forallb (fun g ->
      (&&)
        (match snd g with
         | Some _ -> oeqb (snd g) (nth_error s.pushed (snd (fst g)))
         | None -> false) (Nat.ltb (snd (fst g)) s.tix)) s.got)

(** val monitors_ok : (st * aux) -> bool **)

let monitors_ok sx =
  let s = fst sx in
  (&&) ((&&) ((&&) (negb s.bad_uaf) (negb s.bad_under)) (negb s.bad_null))
    (got_ok s)

(** val m_init : st * aux **)

let m_init =
  ((init (S (S (S (S (S (S (S (S (S (S (S (S (S (S (S (S (S (S (S (S (S (S (S
     (S (S (S (S (S (S (S (S (S O))))))))))))))))))))))))))))))))), aux0)

(** val m_accept : (st * aux) -> z list -> (st * aux) option **)

let m_accept =
  accept_ev (S (S (S (S (S (S (S (S (S (S (S (S (S (S (S (S (S (S (S (S (S (S
    (S (S (S (S (S (S (S (S (S (S O))))))))))))))))))))))))))))))))

(** val m_final : (st * aux) -> bool **)

let m_final =
  monitors_ok
