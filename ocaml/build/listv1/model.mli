
val implb : bool -> bool -> bool

val negb : bool -> bool

type nat =
| O
| S of nat

type comparison =
| Eq
| Lt
| Gt

val compOpp : comparison -> comparison

val pred : nat -> nat

val add : nat -> nat -> nat

val sub : nat -> nat -> nat

val eqb : bool -> bool -> bool

module Nat :
 sig
  val eqb : nat -> nat -> bool

  val leb : nat -> nat -> bool
 end

val existsb : ('a1 -> bool) -> 'a1 list -> bool

val forallb : ('a1 -> bool) -> 'a1 list -> bool

val find : ('a1 -> bool) -> 'a1 list -> 'a1 option

val seq : nat -> nat -> nat list

type positive =
| XI of positive
| XO of positive
| XH

type z =
| Z0
| Zpos of positive
| Zneg of positive

module Pos :
 sig
  val succ : positive -> positive

  val add : positive -> positive -> positive

  val add_carry : positive -> positive -> positive

  val pred_double : positive -> positive

  val mul : positive -> positive -> positive

  val compare_cont : comparison -> positive -> positive -> comparison

  val compare : positive -> positive -> comparison

  val eqb : positive -> positive -> bool

  val iter_op : ('a1 -> 'a1 -> 'a1) -> positive -> 'a1 -> 'a1

  val to_nat : positive -> nat
 end

module Z :
 sig
  val double : z -> z

  val succ_double : z -> z

  val pred_double : z -> z

  val pos_sub : positive -> positive -> z

  val add : z -> z -> z

  val opp : z -> z

  val sub : z -> z -> z

  val mul : z -> z -> z

  val compare : z -> z -> comparison

  val leb : z -> z -> bool

  val ltb : z -> z -> bool

  val eqb : z -> z -> bool

  val to_nat : z -> nat

  val pos_div_eucl : positive -> z -> z * z

  val div_eucl : z -> z -> z * z

  val modulo : z -> z -> z
 end

type node = { nprev : nat option; nnext : nat option; nval : bool;
              nlink : bool; refs : nat; freed : bool; stage : nat;
              inch : bool; gpred : nat; cons : nat; byrem : bool; ret : 
              bool; hnd : bool; own : nat }

val w_prev : nat option -> node -> node

val w_next : nat option -> node -> node

val w_link : bool -> node -> node

val w_stage : nat -> node -> node

val w_gpred : nat -> node -> node

val w_ret : bool -> node -> node

val w_take : bool -> node -> node

val w_unchain : node -> node

val w_drop : node -> node

type ppc =
| QIdle
| Q0
| Q1
| Q2
| Q3

type pst = { qp : ppc; qn : nat; qprev : nat; qempty : bool; qclk : nat;
             qhead : bool }

type kpc =
| KIdle
| KP0 of bool
| KP1 of bool
| KP2
| KK0
| KK1
| KE0
| KR1
| KR2

type st = { nodes : (nat -> node); nn : nat; head : nat; tail : nat;
            p : (nat -> pst); kp : kpc; kn : nat; kx : nat;
            kres : nat option; kbool : bool; kclock : nat; lastpop : 
            nat; bad_order : bool; bad_head : bool; bad_val : bool;
            bad_mem : bool }

val upd : (nat -> 'a1) -> nat -> 'a1 -> nat -> 'a1

val s_nodes : (nat -> node) -> st -> st

val s_P : (nat -> pst) -> st -> st

val s_k : kpc -> nat -> nat -> st -> st

val s_res : nat option -> st -> st

val s_bool : bool -> st -> st

val s_alloc : nat -> st -> st

val s_tail : nat -> bool -> st -> st

val s_bhead : bool -> st -> st

val s_bval : bool -> st -> st

val s_bmem : bool -> st -> st

val deref : nat list -> st -> st

val modn : nat -> (node -> node) -> st -> st

val fresh : nat -> nat -> node

type action =
| Push of nat
| PStep of nat
| Pop
| PopIf
| Peek
| IsEmpty
| Remove of nat
| DropH of nat
| IsLink of nat
| KStep of bool

val has_handle : st -> nat -> bool

val step : st -> action -> st option

val stub : node

val unalloc : node

val init : st

val monitors_ok : st -> bool

type ast = { ms : st; addr : (nat -> z); nobj : (nat -> z); hobj : z;
             tobj : z; tag : (nat -> z); ptag : (nat -> z);
             pcall : (nat -> bool); thr : z; kact : z; kcall : z }

val with_ms : ast -> st -> ast

val set_addr : ast -> nat -> z -> ast

val set_nobj : ast -> nat -> z -> ast

val set_hobj : ast -> z -> ast

val set_tobj : ast -> z -> ast

val set_tag : ast -> nat -> z -> ast

val set_push : ast -> nat -> z -> bool -> ast

val set_thr : ast -> z -> ast

val set_kact : ast -> z -> ast

val set_kcall : ast -> z -> ast

val a_init : ast

type k = ast -> ast option

val kseq : k -> k -> k

val kguard : (ast -> bool) -> k

val kstep : (ast -> action) -> k

val kfail : k

val ppc_eqb : ppc -> ppc -> bool

val kpc_eqb : kpc -> kpc -> bool

val at_q : nat -> ppc -> k

val at_k : kpc -> k

val znz : z -> bool

val fresh_in : ast -> (nat -> z) -> nat -> z -> bool

val k_addr : (ast -> nat) -> z -> k

val k_nobj : (ast -> nat) -> z -> k

val k_hobj : z -> k

val k_tobj : z -> k

val k_optaddr : (ast -> nat option) -> z -> k

val k_cons : z -> k

val in_call : z -> k

val find_tag : ast -> z -> nat option

val k_handle : z -> (nat -> action) -> k

val k_result : z -> z -> k

val popif_pred : ast -> nat -> bool

val accept_code : z -> z -> z -> z -> k

val accept_ev : ast -> z list -> ast option

val a_final : ast -> bool

val m_init : ast

val m_accept : ast -> z list -> ast option

val m_final : ast -> bool
