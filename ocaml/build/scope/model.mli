
val implb : bool -> bool -> bool

val negb : bool -> bool

type nat =
| O
| S of nat

val fst : ('a1 * 'a2) -> 'a1

val app : 'a1 list -> 'a1 list -> 'a1 list

val add : nat -> nat -> nat

val sub : nat -> nat -> nat

val eqb : bool -> bool -> bool

module Nat :
 sig
  val eqb : nat -> nat -> bool

  val leb : nat -> nat -> bool

  val ltb : nat -> nat -> bool
 end

val forallb : ('a1 -> bool) -> 'a1 list -> bool

val seq : nat -> nat -> nat list

type positive =
| XI of positive
| XO of positive
| XH

type z =
| Z0
| Zpos of positive
| Zneg of positive

module Pos :
 sig
  val succ : positive -> positive

  val add : positive -> positive -> positive

  val add_carry : positive -> positive -> positive

  val pred_double : positive -> positive

  val mul : positive -> positive -> positive

  val eqb : positive -> positive -> bool

  val iter_op : ('a1 -> 'a1 -> 'a1) -> positive -> 'a1 -> 'a1

  val to_nat : positive -> nat

  val of_succ_nat : nat -> positive
 end

module Z :
 sig
  val double : z -> z

  val succ_double : z -> z

  val pred_double : z -> z

  val pos_sub : positive -> positive -> z

  val add : z -> z -> z

  val mul : z -> z -> z

  val eqb : z -> z -> bool

  val to_nat : z -> nat

  val of_nat : nat -> z
 end

type kind =
| KThread
| KCo

type unwst =
| UNone
| UPanic of nat
| UCancel

type outcome =
| ORun
| OOk of nat
| OPanic of nat
| OCancel

type jresult =
| ROk
| RPanic of nat
| RCancel

type rsn =
| RU
| RC

type pc =
| PNone
| PBody
| PDrop
| PJ0
| PW0
| PW1
| PW2
| PW3
| PPark
| PWW
| PT1
| PT2
| PEn
| PCk
| PRes
| PRet
| PF1
| PF2
| PF3
| PF4
| PDone

type cfg = { cdis : bool; cloop : bool; ctrans : bool }

val current : cfg

type st = { pcm : (nat -> pc); kindm : (nat -> kind); depthm : (nat -> nat);
            frm : (nat -> nat -> nat list); unwm : (nat -> unwst);
            cbitm : (nat -> bool); dism : (nat -> nat); jcm : (nat -> nat);
            jbm : (nat -> nat); jexpm : (nat -> bool);
            jresm : (nat -> jresult); awm : (nat -> nat);
            jstm : (nat -> bool); jwakem : (nat -> nat option);
            ipktm : (nat -> bool); pktm : (nat -> nat option);
            panm : (nat -> nat option); joinedm : (nat -> bool);
            handlem : (nat -> bool); parentm : (nat -> nat option);
            cdepthm : (nat -> nat); cleftm : (nat -> bool);
            cvalm : (nat -> nat); outm : (nat -> outcome);
            gotm : (nat -> nat); tkm : (nat -> bool); tokm : (nat -> bool);
            parkedm : (nat -> bool); reasonm : (nat -> rsn option);
            bownerm : (nat -> nat); nexta : nat; nextb : nat }

val set_pcm : st -> (nat -> pc) -> st

val set_depthm : st -> (nat -> nat) -> st

val set_frm : st -> (nat -> nat -> nat list) -> st

val set_unwm : st -> (nat -> unwst) -> st

val set_cbitm : st -> (nat -> bool) -> st

val set_dism : st -> (nat -> nat) -> st

val set_jcm : st -> (nat -> nat) -> st

val set_jbm : st -> (nat -> nat) -> st

val set_jexpm : st -> (nat -> bool) -> st

val set_jresm : st -> (nat -> jresult) -> st

val set_awm : st -> (nat -> nat) -> st

val set_jstm : st -> (nat -> bool) -> st

val set_jwakem : st -> (nat -> nat option) -> st

val set_ipktm : st -> (nat -> bool) -> st

val set_pktm : st -> (nat -> nat option) -> st

val set_panm : st -> (nat -> nat option) -> st

val set_joinedm : st -> (nat -> bool) -> st

val set_handlem : st -> (nat -> bool) -> st

val set_cleftm : st -> (nat -> bool) -> st

val set_cvalm : st -> (nat -> nat) -> st

val set_outm : st -> (nat -> outcome) -> st

val set_gotm : st -> (nat -> nat) -> st

val set_tkm : st -> (nat -> bool) -> st

val set_tokm : st -> (nat -> bool) -> st

val set_parkedm : st -> (nat -> bool) -> st

val set_reasonm : st -> (nat -> rsn option) -> st

val set_bownerm : st -> (nat -> nat) -> st

val set_nextb : st -> nat -> st

val upd : (nat -> 'a1) -> nat -> 'a1 -> nat -> 'a1

type action =
| Root of kind
| Open of nat
| Spawn of nat * nat
| Close of nat
| Join of nat * nat
| Panic of nat * nat
| CPoint of nat
| Finish of nat * nat
| Cancel of nat
| Recheck of nat
| Step of nat

val is_co : kind -> bool

val unwinding : unwst -> bool

val onat_eqb : nat option -> nat -> bool

val pc_is_ww : pc -> bool

val pc_is_none : pc -> bool

val pc_is_body : pc -> bool

val is_none : 'a1 option -> bool

val wpc : st -> nat -> pc -> st

val new_task : st -> nat -> kind -> nat option -> nat -> bool -> st

val raise : cfg -> st -> nat -> unwst -> bool -> st

val after_park : cfg -> pc

val after_take : cfg -> st -> nat -> pc

val cancel_due : st -> nat -> bool

val step : cfg -> st -> action -> st option

val init : st

type aux = { amap : (nat -> nat); pmap : (nat -> nat); ph : (nat -> nat);
             ctgt : (nat -> nat); nest : (nat -> nat); cmap : (z * nat) list;
             ojs : (nat -> z); ojw : (nat -> z); opk : (nat -> z) }

type ast = st * aux

val aux0 : aux

val m_init : ast

val set_amap : aux -> (nat -> nat) -> aux

val set_pmap : aux -> (nat -> nat) -> aux

val set_ph : aux -> nat -> nat -> aux

val set_ctgt : aux -> (nat -> nat) -> aux

val set_cmap : aux -> (z * nat) list -> aux

val set_nest : aux -> nat -> nat -> aux

val set_ojs : aux -> (nat -> z) -> aux

val set_ojw : aux -> (nat -> z) -> aux

val set_opk : aux -> (nat -> z) -> aux

val pc_eqb : pc -> pc -> bool

val zb : z -> bool

val bz : bool -> z

val at_pc : st -> nat -> pc -> bool

val cword : st -> nat -> z

val cwn : st -> nat -> nat -> z

val bind_obj : (nat -> z) -> nat -> z -> (nat -> z) option

val steps : st -> action list -> st option

val silent : st -> nat -> bool

val norm : st -> nat -> nat -> action list

type plan = { acts : action list; nxt : aux }

val act_on :
  st -> nat -> (st -> bool) -> (st -> action list) -> (st -> st -> aux
  option) -> plan option

val lookup : (z * nat) list -> z -> nat option

val task : aux -> nat -> nat option

val tgt : aux -> nat -> nat option

val skip : aux -> plan option

val is_some : 'a1 option -> bool

val is_upanic : unwst -> bool

val raised : st -> st -> nat -> bool

val phis : aux -> nat -> nat -> bool

val keep : aux -> st -> st -> aux option

val one : nat -> st -> action list

val none_acts : st -> action list

val plan_ev : st -> aux -> z list -> plan option

val accept_ev : ast -> z list -> ast option

val monitors_ok : ast -> bool

val m_init0 : ast

val m_accept : ast -> z list -> ast option

val m_final : ast -> bool
