
(** val negb : bool -> bool **)

let negb = function
| true -> false
| false -> true

type nat =
| O
| S of nat

(** val option_map : ('a1 -> 'a2) -> 'a1 option -> 'a2 option **)

let option_map f = function
| Some a -> Some (f a)
| None -> None

(** val fst : ('a1 * 'a2) -> 'a1 **)

let fst = function
| (x, _) -> x

(** val snd : ('a1 * 'a2) -> 'a2 **)

let snd = function
| (_, y) -> y

(** val length : 'a1 list -> nat **)

let rec length = function
| [] -> O
| _ :: l' -> S (length l')

(** val app : 'a1 list -> 'a1 list -> 'a1 list **)

let rec app l m =
  match l with
  | [] -> m
  | a :: l1 -> a :: (app l1 m)

type comparison =
| Eq
| Lt
| Gt

(** val compOpp : comparison -> comparison **)

let compOpp = function
| Eq -> Eq
| Lt -> Gt
| Gt -> Lt

module Coq__1 = struct
 (** val add : nat -> nat -> nat **)
 let rec add n0 m =
   match n0 with
   | O -> m
   | S p0 -> S (add p0 m)
end
include Coq__1

(** val sub : nat -> nat -> nat **)

let rec sub n0 m =
  match n0 with
  | O -> n0
  | S k -> (match m with
            | O -> n0
            | S l -> sub k l)

module Nat =
 struct
  (** val pred : nat -> nat **)

  let pred n0 = match n0 with
  | O -> n0
  | S u -> u

  (** val sub : nat -> nat -> nat **)

  let rec sub n0 m =
    match n0 with
    | O -> n0
    | S k -> (match m with
              | O -> n0
              | S l -> sub k l)

  (** val eqb : nat -> nat -> bool **)

  let rec eqb n0 m =
    match n0 with
    | O -> (match m with
            | O -> true
            | S _ -> false)
    | S n' -> (match m with
               | O -> false
               | S m' -> eqb n' m')

  (** val leb : nat -> nat -> bool **)

  let rec leb n0 m =
    match n0 with
    | O -> true
    | S n' -> (match m with
               | O -> false
               | S m' -> leb n' m')

  (** val ltb : nat -> nat -> bool **)

  let ltb n0 m =
    leb (S n0) m

  (** val min : nat -> nat -> nat **)

  let rec min n0 m =
    match n0 with
    | O -> O
    | S n' -> (match m with
               | O -> O
               | S m' -> S (min n' m'))

  (** val divmod : nat -> nat -> nat -> nat -> nat * nat **)

  let rec divmod x y q u =
    match x with
    | O -> (q, u)
    | S x' ->
      (match u with
       | O -> divmod x' y (S q) y
       | S u' -> divmod x' y q u')

  (** val modulo : nat -> nat -> nat **)

  let modulo x = function
  | O -> x
  | S y' -> sub y' (snd (divmod x y' O y'))

  (** val eq_dec : nat -> nat -> bool **)

  let rec eq_dec n0 m =
    match n0 with
    | O -> (match m with
            | O -> true
            | S _ -> false)
    | S n1 -> (match m with
               | O -> false
               | S n2 -> eq_dec n1 n2)
 end

(** val hd_error : 'a1 list -> 'a1 option **)

let hd_error = function
| [] -> None
| x :: _ -> Some x

(** val remove : ('a1 -> 'a1 -> bool) -> 'a1 -> 'a1 list -> 'a1 list **)

let rec remove eq_dec0 x = function
| [] -> []
| y :: tl ->
  if eq_dec0 x y then remove eq_dec0 x tl else y :: (remove eq_dec0 x tl)

(** val map : ('a1 -> 'a2) -> 'a1 list -> 'a2 list **)

let rec map f = function
| [] -> []
| a :: t -> (f a) :: (map f t)

(** val existsb : ('a1 -> bool) -> 'a1 list -> bool **)

let rec existsb f = function
| [] -> false
| a :: l0 -> (||) (f a) (existsb f l0)

(** val repeat : 'a1 -> nat -> 'a1 list **)

let rec repeat x = function
| O -> []
| S k -> x :: (repeat x k)

type positive =
| XI of positive
| XO of positive
| XH

type n =
| N0
| Npos of positive

type z =
| Z0
| Zpos of positive
| Zneg of positive

module Pos =
 struct
  type mask =
  | IsNul
  | IsPos of positive
  | IsNeg
 end

module Coq_Pos =
 struct
  (** val succ : positive -> positive **)

  let rec succ = function
  | XI p0 -> XO (succ p0)
  | XO p0 -> XI p0
  | XH -> XO XH

  (** val add : positive -> positive -> positive **)

  let rec add x y =
    match x with
    | XI p0 ->
      (match y with
       | XI q -> XO (add_carry p0 q)
       | XO q -> XI (add p0 q)
       | XH -> XO (succ p0))
    | XO p0 ->
      (match y with
       | XI q -> XI (add p0 q)
       | XO q -> XO (add p0 q)
       | XH -> XI p0)
    | XH -> (match y with
             | XI q -> XO (succ q)
             | XO q -> XI q
             | XH -> XO XH)

  (** val add_carry : positive -> positive -> positive **)

  and add_carry x y =
    match x with
    | XI p0 ->
      (match y with
       | XI q -> XI (add_carry p0 q)
       | XO q -> XO (add_carry p0 q)
       | XH -> XI (succ p0))
    | XO p0 ->
      (match y with
       | XI q -> XO (add_carry p0 q)
       | XO q -> XI (add p0 q)
       | XH -> XO (succ p0))
    | XH ->
      (match y with
       | XI q -> XI (succ q)
       | XO q -> XO (succ q)
       | XH -> XI XH)

  (** val pred_double : positive -> positive **)

  let rec pred_double = function
  | XI p0 -> XI (XO p0)
  | XO p0 -> XI (pred_double p0)
  | XH -> XH

  (** val pred_N : positive -> n **)

  let pred_N = function
  | XI p0 -> Npos (XO p0)
  | XO p0 -> Npos (pred_double p0)
  | XH -> N0

  type mask = Pos.mask =
  | IsNul
  | IsPos of positive
  | IsNeg

  (** val succ_double_mask : mask -> mask **)

  let succ_double_mask = function
  | IsNul -> IsPos XH
  | IsPos p0 -> IsPos (XI p0)
  | IsNeg -> IsNeg

  (** val double_mask : mask -> mask **)

  let double_mask = function
  | IsPos p0 -> IsPos (XO p0)
  | x0 -> x0

  (** val double_pred_mask : positive -> mask **)

  let double_pred_mask = function
  | XI p0 -> IsPos (XO (XO p0))
  | XO p0 -> IsPos (XO (pred_double p0))
  | XH -> IsNul

  (** val sub_mask : positive -> positive -> mask **)

  let rec sub_mask x y =
    match x with
    | XI p0 ->
      (match y with
       | XI q -> double_mask (sub_mask p0 q)
       | XO q -> succ_double_mask (sub_mask p0 q)
       | XH -> IsPos (XO p0))
    | XO p0 ->
      (match y with
       | XI q -> succ_double_mask (sub_mask_carry p0 q)
       | XO q -> double_mask (sub_mask p0 q)
       | XH -> IsPos (pred_double p0))
    | XH -> (match y with
             | XH -> IsNul
             | _ -> IsNeg)

  (** val sub_mask_carry : positive -> positive -> mask **)

  and sub_mask_carry x y =
    match x with
    | XI p0 ->
      (match y with
       | XI q -> succ_double_mask (sub_mask_carry p0 q)
       | XO q -> double_mask (sub_mask p0 q)
       | XH -> IsPos (pred_double p0))
    | XO p0 ->
      (match y with
       | XI q -> double_mask (sub_mask_carry p0 q)
       | XO q -> succ_double_mask (sub_mask_carry p0 q)
       | XH -> double_pred_mask p0)
    | XH -> IsNeg

  (** val mul : positive -> positive -> positive **)

  let rec mul x y =
    match x with
    | XI p0 -> add y (XO (mul p0 y))
    | XO p0 -> XO (mul p0 y)
    | XH -> y

  (** val iter : ('a1 -> 'a1) -> 'a1 -> positive -> 'a1 **)

  let rec iter f x = function
  | XI n' -> f (iter f (iter f x n') n')
  | XO n' -> iter f (iter f x n') n'
  | XH -> f x

  (** val div2 : positive -> positive **)

  let div2 = function
  | XI p1 -> p1
  | XO p1 -> p1
  | XH -> XH

  (** val div2_up : positive -> positive **)

  let div2_up = function
  | XI p1 -> succ p1
  | XO p1 -> p1
  | XH -> XH

  (** val compare_cont : comparison -> positive -> positive -> comparison **)

  let rec compare_cont r x y =
    match x with
    | XI p0 ->
      (match y with
       | XI q -> compare_cont r p0 q
       | XO q -> compare_cont Gt p0 q
       | XH -> Gt)
    | XO p0 ->
      (match y with
       | XI q -> compare_cont Lt p0 q
       | XO q -> compare_cont r p0 q
       | XH -> Gt)
    | XH -> (match y with
             | XH -> r
             | _ -> Lt)

  (** val compare : positive -> positive -> comparison **)

  let compare =
    compare_cont Eq

  (** val eqb : positive -> positive -> bool **)

  let rec eqb p0 q =
    match p0 with
    | XI p1 -> (match q with
                | XI q0 -> eqb p1 q0
                | _ -> false)
    | XO p1 -> (match q with
                | XO q0 -> eqb p1 q0
                | _ -> false)
    | XH -> (match q with
             | XH -> true
             | _ -> false)

  (** val testbit : positive -> n -> bool **)

  let rec testbit p0 n0 =
    match p0 with
    | XI p1 -> (match n0 with
                | N0 -> true
                | Npos n1 -> testbit p1 (pred_N n1))
    | XO p1 -> (match n0 with
                | N0 -> false
                | Npos n1 -> testbit p1 (pred_N n1))
    | XH -> (match n0 with
             | N0 -> true
             | Npos _ -> false)

  (** val iter_op : ('a1 -> 'a1 -> 'a1) -> positive -> 'a1 -> 'a1 **)

  let rec iter_op op p0 a =
    match p0 with
    | XI p1 -> op a (iter_op op p1 (op a a))
    | XO p1 -> iter_op op p1 (op a a)
    | XH -> a

  (** val to_nat : positive -> nat **)

  let to_nat x =
    iter_op Coq__1.add x (S O)
 end

module N =
 struct
  (** val succ_double : n -> n **)

  let succ_double = function
  | N0 -> Npos XH
  | Npos p0 -> Npos (XI p0)

  (** val double : n -> n **)

  let double = function
  | N0 -> N0
  | Npos p0 -> Npos (XO p0)

  (** val add : n -> n -> n **)

  let add n0 m =
    match n0 with
    | N0 -> m
    | Npos p0 -> (match m with
                  | N0 -> n0
                  | Npos q -> Npos (Coq_Pos.add p0 q))

  (** val sub : n -> n -> n **)

  let sub n0 m =
    match n0 with
    | N0 -> N0
    | Npos n' ->
      (match m with
       | N0 -> n0
       | Npos m' ->
         (match Coq_Pos.sub_mask n' m' with
          | Coq_Pos.IsPos p0 -> Npos p0
          | _ -> N0))

  (** val mul : n -> n -> n **)

  let mul n0 m =
    match n0 with
    | N0 -> N0
    | Npos p0 -> (match m with
                  | N0 -> N0
                  | Npos q -> Npos (Coq_Pos.mul p0 q))

  (** val compare : n -> n -> comparison **)

  let compare n0 m =
    match n0 with
    | N0 -> (match m with
             | N0 -> Eq
             | Npos _ -> Lt)
    | Npos n' -> (match m with
                  | N0 -> Gt
                  | Npos m' -> Coq_Pos.compare n' m')

  (** val eqb : n -> n -> bool **)

  let eqb n0 m =
    match n0 with
    | N0 -> (match m with
             | N0 -> true
             | Npos _ -> false)
    | Npos p0 -> (match m with
                  | N0 -> false
                  | Npos q -> Coq_Pos.eqb p0 q)

  (** val leb : n -> n -> bool **)

  let leb x y =
    match compare x y with
    | Gt -> false
    | _ -> true

  (** val pos_div_eucl : positive -> n -> n * n **)

  let rec pos_div_eucl a b0 =
    match a with
    | XI a' ->
      let (q, r) = pos_div_eucl a' b0 in
      let r' = succ_double r in
      if leb b0 r' then ((succ_double q), (sub r' b0)) else ((double q), r')
    | XO a' ->
      let (q, r) = pos_div_eucl a' b0 in
      let r' = double r in
      if leb b0 r' then ((succ_double q), (sub r' b0)) else ((double q), r')
    | XH ->
      (match b0 with
       | N0 -> (N0, (Npos XH))
       | Npos p0 ->
         (match p0 with
          | XH -> ((Npos XH), N0)
          | _ -> (N0, (Npos XH))))

  (** val div_eucl : n -> n -> n * n **)

  let div_eucl a b0 =
    match a with
    | N0 -> (N0, N0)
    | Npos na -> (match b0 with
                  | N0 -> (N0, a)
                  | Npos _ -> pos_div_eucl na b0)

  (** val div : n -> n -> n **)

  let div a b0 =
    fst (div_eucl a b0)

  (** val testbit : n -> n -> bool **)

  let testbit a n0 =
    match a with
    | N0 -> false
    | Npos p0 -> Coq_Pos.testbit p0 n0
 end

module Z =
 struct
  (** val opp : z -> z **)

  let opp = function
  | Z0 -> Z0
  | Zpos x0 -> Zneg x0
  | Zneg x0 -> Zpos x0

  (** val mul : z -> z -> z **)

  let mul x y =
    match x with
    | Z0 -> Z0
    | Zpos x' ->
      (match y with
       | Z0 -> Z0
       | Zpos y' -> Zpos (Coq_Pos.mul x' y')
       | Zneg y' -> Zneg (Coq_Pos.mul x' y'))
    | Zneg x' ->
      (match y with
       | Z0 -> Z0
       | Zpos y' -> Zneg (Coq_Pos.mul x' y')
       | Zneg y' -> Zpos (Coq_Pos.mul x' y'))

  (** val compare : z -> z -> comparison **)

  let compare x y =
    match x with
    | Z0 -> (match y with
             | Z0 -> Eq
             | Zpos _ -> Lt
             | Zneg _ -> Gt)
    | Zpos x' -> (match y with
                  | Zpos y' -> Coq_Pos.compare x' y'
                  | _ -> Gt)
    | Zneg x' ->
      (match y with
       | Zneg y' -> compOpp (Coq_Pos.compare x' y')
       | _ -> Lt)

  (** val leb : z -> z -> bool **)

  let leb x y =
    match compare x y with
    | Gt -> false
    | _ -> true

  (** val ltb : z -> z -> bool **)

  let ltb x y =
    match compare x y with
    | Lt -> true
    | _ -> false

  (** val eqb : z -> z -> bool **)

  let eqb x y =
    match x with
    | Z0 -> (match y with
             | Z0 -> true
             | _ -> false)
    | Zpos p0 -> (match y with
                  | Zpos q -> Coq_Pos.eqb p0 q
                  | _ -> false)
    | Zneg p0 -> (match y with
                  | Zneg q -> Coq_Pos.eqb p0 q
                  | _ -> false)

  (** val to_nat : z -> nat **)

  let to_nat = function
  | Zpos p0 -> Coq_Pos.to_nat p0
  | _ -> O

  (** val to_N : z -> n **)

  let to_N = function
  | Zpos p0 -> Npos p0
  | _ -> N0

  (** val odd : z -> bool **)

  let odd = function
  | Z0 -> false
  | Zpos p0 -> (match p0 with
                | XO _ -> false
                | _ -> true)
  | Zneg p0 -> (match p0 with
                | XO _ -> false
                | _ -> true)

  (** val div2 : z -> z **)

  let div2 = function
  | Z0 -> Z0
  | Zpos p0 -> (match p0 with
                | XH -> Z0
                | _ -> Zpos (Coq_Pos.div2 p0))
  | Zneg p0 -> Zneg (Coq_Pos.div2_up p0)

  (** val testbit : z -> z -> bool **)

  let testbit a = function
  | Z0 -> odd a
  | Zpos p0 ->
    (match a with
     | Z0 -> false
     | Zpos a0 -> Coq_Pos.testbit a0 (Npos p0)
     | Zneg a0 -> negb (N.testbit (Coq_Pos.pred_N a0) (Npos p0)))
  | Zneg _ -> false

  (** val shiftl : z -> z -> z **)

  let shiftl a = function
  | Z0 -> a
  | Zpos p0 -> Coq_Pos.iter (mul (Zpos (XO XH))) a p0
  | Zneg p0 -> Coq_Pos.iter div2 a p0

  (** val shiftr : z -> z -> z **)

  let shiftr a n0 =
    shiftl a (opp n0)
 end

type ag =
| AT of nat
| AC of nat

type res =
| RVal of z
| RPan of z
| RCancel

type jmode =
| MJoin
| MWait

type gstate =
| GInit
| GLive
| GFin

type place =
| LNone
| LG of nat
| LL of nat
| LH of nat
| LRun of nat
| LSlot
| LDead

type qid =
| QG of nat
| QL of nat

type jpc =
| JW0 of jmode
| JW1 of jmode
| JW2 of jmode * nat
| JW3 of jmode * nat
| JW3p of jmode * nat
| JW4 of jmode * nat
| JT1
| JT2

type pc =
| Idle
| SG of nat
| SP of nat * nat
| SW of nat
| SL of nat
| InJ of nat
| ID0 of nat
| CF of z
| CT1
| CT2
| CT3 of nat
| CRet
| PP0 of z
| PT1
| PT2
| PT3 of nat
| PD

type kpc =
| K0
| KG of nat
| KW of nat
| KRe
| KRun
| KD
| KEnd

type frame =
| FRun of nat
| FKer of nat * kpc
| FPan of nat

type cor = { spawned : bool; gst : gstate; upc : pc; cancelled : bool;
             jstate : bool; jwake : nat option; pkt : z option;
             pan : z option; jcall : (ag * jpc) option; jdone : bool;
             loc : place; bodycnt : nat; outcome : res option; ptaken : 
             bool; jret : res option }

type st = { co : (nat -> cor); gq : (nat -> nat list);
            lq : (nat -> nat list); hand : (nat -> nat list);
            stk : (nat -> frame list); slots : nat list; dead : nat list;
            tpc : (nat -> pc); tok : (nat -> bool); bjoin : (nat -> nat);
            nextb : nat; punp : nat list; rr : nat; nw : nat }

(** val upd : (nat -> 'a1) -> nat -> 'a1 -> nat -> 'a1 **)

let upd f i v j =
  if Nat.eqb j i then v else f j

(** val ag_eqb : ag -> ag -> bool **)

let ag_eqb x y =
  match x with
  | AT a -> (match y with
             | AT b0 -> Nat.eqb a b0
             | AC _ -> false)
  | AC a -> (match y with
             | AT _ -> false
             | AC b0 -> Nat.eqb a b0)

(** val cor0 : cor **)

let cor0 =
  { spawned = false; gst = GInit; upc = Idle; cancelled = false; jstate =
    true; jwake = None; pkt = None; pan = None; jcall = None; jdone = false;
    loc = LNone; bodycnt = O; outcome = None; ptaken = false; jret = None }

(** val cor_new : place -> cor **)

let cor_new l =
  { spawned = true; gst = GInit; upc = Idle; cancelled = false; jstate =
    true; jwake = None; pkt = None; pan = None; jcall = None; jdone = false;
    loc = l; bodycnt = O; outcome = None; ptaken = false; jret = None }

(** val mkc :
    bool -> gstate -> pc -> bool -> bool -> nat option -> z option -> z
    option -> (ag * jpc) option -> bool -> place -> nat -> res option -> bool
    -> res option -> cor **)

let mkc sp g u cn js jw pk pn jb jd l bc oc pt jr =
  { spawned = sp; gst = g; upc = u; cancelled = cn; jstate = js; jwake = jw;
    pkt = pk; pan = pn; jcall = jb; jdone = jd; loc = l; bodycnt = bc;
    outcome = oc; ptaken = pt; jret = jr }

(** val c_upc : cor -> pc -> cor **)

let c_upc x u =
  mkc x.spawned x.gst u x.cancelled x.jstate x.jwake x.pkt x.pan x.jcall
    x.jdone x.loc x.bodycnt x.outcome x.ptaken x.jret

(** val c_loc : cor -> place -> cor **)

let c_loc x l =
  mkc x.spawned x.gst x.upc x.cancelled x.jstate x.jwake x.pkt x.pan x.jcall
    x.jdone l x.bodycnt x.outcome x.ptaken x.jret

(** val c_canc : cor -> bool -> cor **)

let c_canc x b0 =
  mkc x.spawned x.gst x.upc b0 x.jstate x.jwake x.pkt x.pan x.jcall x.jdone
    x.loc x.bodycnt x.outcome x.ptaken x.jret

(** val c_jstate : cor -> bool -> cor **)

let c_jstate x b0 =
  mkc x.spawned x.gst x.upc x.cancelled b0 x.jwake x.pkt x.pan x.jcall
    x.jdone x.loc x.bodycnt x.outcome x.ptaken x.jret

(** val c_jwake : cor -> nat option -> cor **)

let c_jwake x w =
  mkc x.spawned x.gst x.upc x.cancelled x.jstate w x.pkt x.pan x.jcall
    x.jdone x.loc x.bodycnt x.outcome x.ptaken x.jret

(** val c_pkt : cor -> z option -> cor **)

let c_pkt x p0 =
  mkc x.spawned x.gst x.upc x.cancelled x.jstate x.jwake p0 x.pan x.jcall
    x.jdone x.loc x.bodycnt x.outcome x.ptaken x.jret

(** val c_pan : cor -> z option -> cor **)

let c_pan x p0 =
  mkc x.spawned x.gst x.upc x.cancelled x.jstate x.jwake x.pkt p0 x.jcall
    x.jdone x.loc x.bodycnt x.outcome x.ptaken x.jret

(** val c_jcall : cor -> (ag * jpc) option -> cor **)

let c_jcall x b0 =
  mkc x.spawned x.gst x.upc x.cancelled x.jstate x.jwake x.pkt x.pan b0
    x.jdone x.loc x.bodycnt x.outcome x.ptaken x.jret

(** val c_jfin : cor -> res -> cor **)

let c_jfin x r =
  mkc x.spawned x.gst x.upc x.cancelled x.jstate x.jwake x.pkt x.pan None
    true x.loc x.bodycnt x.outcome x.ptaken (Some r)

(** val c_ptaken : cor -> cor **)

let c_ptaken x =
  mkc x.spawned x.gst x.upc x.cancelled x.jstate x.jwake x.pkt x.pan x.jcall
    x.jdone x.loc x.bodycnt x.outcome true x.jret

(** val c_resume : cor -> place -> cor **)

let c_resume x l =
  mkc x.spawned (match x.gst with
                 | GInit -> GLive
                 | x0 -> x0) x.upc x.cancelled x.jstate x.jwake x.pkt x.pan
    x.jcall x.jdone l
    (match x.gst with
     | GInit -> S x.bodycnt
     | _ -> x.bodycnt) x.outcome x.ptaken x.jret

(** val c_end : cor -> gstate -> pc -> res -> cor **)

let c_end x g u o =
  mkc x.spawned g u x.cancelled x.jstate x.jwake x.pkt x.pan x.jcall x.jdone
    x.loc x.bodycnt (Some o) x.ptaken x.jret

(** val c_gst : cor -> gstate -> cor **)

let c_gst x g =
  mkc x.spawned g x.upc x.cancelled x.jstate x.jwake x.pkt x.pan x.jcall
    x.jdone x.loc x.bodycnt x.outcome x.ptaken x.jret

(** val mk :
    (nat -> cor) -> (nat -> nat list) -> (nat -> nat list) -> (nat -> nat
    list) -> (nat -> frame list) -> nat list -> nat list -> (nat -> pc) ->
    (nat -> bool) -> (nat -> nat) -> nat -> nat list -> nat -> nat -> st **)

let mk c g l h k sl d tp tk bo nb pu r n0 =
  { co = c; gq = g; lq = l; hand = h; stk = k; slots = sl; dead = d; tpc =
    tp; tok = tk; bjoin = bo; nextb = nb; punp = pu; rr = r; nw = n0 }

(** val s_co : st -> (nat -> cor) -> st **)

let s_co s f =
  mk f s.gq s.lq s.hand s.stk s.slots s.dead s.tpc s.tok s.bjoin s.nextb
    s.punp s.rr s.nw

(** val s_gq : st -> (nat -> nat list) -> st **)

let s_gq s f =
  mk s.co f s.lq s.hand s.stk s.slots s.dead s.tpc s.tok s.bjoin s.nextb
    s.punp s.rr s.nw

(** val s_lq : st -> (nat -> nat list) -> st **)

let s_lq s f =
  mk s.co s.gq f s.hand s.stk s.slots s.dead s.tpc s.tok s.bjoin s.nextb
    s.punp s.rr s.nw

(** val s_hand : st -> (nat -> nat list) -> st **)

let s_hand s f =
  mk s.co s.gq s.lq f s.stk s.slots s.dead s.tpc s.tok s.bjoin s.nextb s.punp
    s.rr s.nw

(** val s_stk : st -> (nat -> frame list) -> st **)

let s_stk s f =
  mk s.co s.gq s.lq s.hand f s.slots s.dead s.tpc s.tok s.bjoin s.nextb
    s.punp s.rr s.nw

(** val s_slots : st -> nat list -> st **)

let s_slots s f =
  mk s.co s.gq s.lq s.hand s.stk f s.dead s.tpc s.tok s.bjoin s.nextb s.punp
    s.rr s.nw

(** val s_dead : st -> nat list -> st **)

let s_dead s f =
  mk s.co s.gq s.lq s.hand s.stk s.slots f s.tpc s.tok s.bjoin s.nextb s.punp
    s.rr s.nw

(** val s_tpc : st -> (nat -> pc) -> st **)

let s_tpc s f =
  mk s.co s.gq s.lq s.hand s.stk s.slots s.dead f s.tok s.bjoin s.nextb
    s.punp s.rr s.nw

(** val s_tok : st -> (nat -> bool) -> st **)

let s_tok s f =
  mk s.co s.gq s.lq s.hand s.stk s.slots s.dead s.tpc f s.bjoin s.nextb
    s.punp s.rr s.nw

(** val s_newb : st -> nat -> st **)

let s_newb s d =
  mk s.co s.gq s.lq s.hand s.stk s.slots s.dead s.tpc
    (upd s.tok s.nextb false) (upd s.bjoin s.nextb d) (S s.nextb) s.punp s.rr
    s.nw

(** val s_punp : st -> nat list -> st **)

let s_punp s f =
  mk s.co s.gq s.lq s.hand s.stk s.slots s.dead s.tpc s.tok s.bjoin s.nextb f
    s.rr s.nw

(** val s_rr : st -> nat -> st **)

let s_rr s f =
  mk s.co s.gq s.lq s.hand s.stk s.slots s.dead s.tpc s.tok s.bjoin s.nextb
    s.punp f s.nw

(** val rm : nat -> nat list -> nat list **)

let rm =
  remove Nat.eq_dec

(** val memb : nat -> nat list -> bool **)

let memb c l =
  existsb (Nat.eqb c) l

(** val rm1 : nat -> nat list -> nat list **)

let rec rm1 w = function
| [] -> []
| x :: r -> if Nat.eqb x w then r else x :: (rm1 w r)

(** val on_co : st -> nat -> (cor -> cor) -> st **)

let on_co s c f =
  s_co s (upd s.co c (f (s.co c)))

(** val getq : st -> qid -> nat list **)

let getq s = function
| QG k -> s.gq k
| QL t -> s.lq t

(** val setq : st -> qid -> nat list -> st **)

let setq s q l =
  match q with
  | QG k -> s_gq s (upd s.gq k l)
  | QL t -> s_lq s (upd s.lq t l)

(** val qloc : qid -> place **)

let qloc = function
| QG k -> LG k
| QL t -> LL t

(** val pushq : st -> qid -> nat -> st **)

let pushq s q c =
  setq s q (app (getq s q) (c :: []))

(** val add_hand : st -> nat -> nat -> st **)

let add_hand s t c =
  s_hand s (upd s.hand t (app (s.hand t) (c :: [])))

(** val del_hand : st -> nat -> nat -> st **)

let del_hand s t c =
  s_hand s (upd s.hand t (rm c (s.hand t)))

(** val set_stk : st -> nat -> frame list -> st **)

let set_stk s t l =
  s_stk s (upd s.stk t l)

(** val cur : st -> nat -> ag option **)

let cur s t =
  match s.stk t with
  | [] -> Some (AT t)
  | f :: _ -> (match f with
               | FRun c -> Some (AC c)
               | _ -> None)

(** val apc : st -> ag -> pc **)

let apc s = function
| AT t -> s.tpc t
| AC c -> (s.co c).upc

(** val set_apc : st -> ag -> pc -> st **)

let set_apc s a p0 =
  match a with
  | AT t -> s_tpc s (upd s.tpc t p0)
  | AC c -> on_co s c (fun x -> c_upc x p0)

(** val live_ag : st -> ag -> bool **)

let live_ag s = function
| AT _ -> true
| AC c -> (match (s.co c).gst with
           | GLive -> true
           | _ -> false)

(** val base_idle : st -> nat -> bool **)

let base_idle s t =
  match s.stk t with
  | [] -> (match s.tpc t with
           | Idle -> true
           | _ -> false)
  | _ :: _ -> false

type action =
| ASpawn of nat * nat * nat option * bool
| AJoin of nat * nat * jmode
| AIsDone of nat * nat
| ACancel of nat * nat
| AYield of nat
| AFinish of nat * z
| APanic of nat * z option
| AStep of nat
| AFire of nat
| KLocal of nat
| KFA of nat
| KStep of nat
| KStore of nat
| KSelfTake of nat
| KSkip of nat
| KDrop of nat
| KSubscribed of nat
| Grab of nat * qid
| Put of nat
| TakeSlot of nat * nat
| Resume of nat * nat
| Wake of nat * qid
| DoUnpark of nat * qid

(** val call_of : st -> ag -> nat -> jpc option **)

let call_of s a d =
  match (s.co d).jcall with
  | Some p0 -> let (a', p1) = p0 in if ag_eqb a' a then Some p1 else None
  | None -> None

(** val set_call : st -> ag -> nat -> jpc -> st **)

let set_call s a d p0 =
  on_co s d (fun x -> c_jcall x (Some (a, p0)))

(** val end_call : st -> nat -> st **)

let end_call s d =
  on_co s d (fun x -> c_jcall x None)

(** val park_ret : st -> nat -> st **)

let park_ret s c =
  match (s.co c).upc with
  | InJ d ->
    (match call_of s (AC c) d with
     | Some j ->
       (match j with
        | JW3p (m, b0) ->
          s_tok (set_call s (AC c) d (JW0 m)) (upd s.tok b0 false)
        | _ -> s)
     | None -> s)
  | _ -> s

(** val pc_idle : pc -> bool **)

let pc_idle = function
| Idle -> true
| _ -> false

(** val take_wake : st -> nat -> (nat -> pc) -> pc -> st **)

let take_wake s c some none =
  match (s.co c).jwake with
  | Some w -> on_co s c (fun x -> c_upc (c_jwake x None) (some w))
  | None -> on_co s c (fun x -> c_upc x none)

(** val step : st -> action -> st option **)

let step s = function
| ASpawn (t, c, id, local) ->
  (match cur s t with
   | Some a ->
     if (&&) ((&&) (pc_idle (apc s a)) (live_ag s a)) (negb (s.co c).spawned)
     then let s1 = add_hand (s_co s (upd s.co c (cor_new (LH t)))) t c in
          Some
          (set_apc s1 a
            (if local
             then SL c
             else (match id with
                   | Some i -> SP (c, (Nat.modulo i s.nw))
                   | None -> SG c)))
     else None
   | None -> None)
| AJoin (t, d, m) ->
  (match cur s t with
   | Some a ->
     if (&&) ((&&) ((&&) (pc_idle (apc s a)) (live_ag s a)) (s.co d).spawned)
          (negb (s.co d).jdone)
     then (match (s.co d).jcall with
           | Some _ -> None
           | None -> Some (set_apc (set_call s a d (JW0 m)) a (InJ d)))
     else None
   | None -> None)
| AIsDone (t, d) ->
  (match cur s t with
   | Some a ->
     if (&&) ((&&) (pc_idle (apc s a)) (live_ag s a)) (s.co d).spawned
     then Some (set_apc s a (ID0 d))
     else None
   | None -> None)
| ACancel (t, d) ->
  (match cur s t with
   | Some a ->
     if (&&) ((&&) (pc_idle (apc s a)) (live_ag s a)) (s.co d).spawned
     then Some (on_co s d (fun x -> c_canc x true))
     else None
   | None -> None)
| AYield t ->
  (match s.stk t with
   | [] -> None
   | f :: rest ->
     (match f with
      | FRun c ->
        let go = fun s0 -> Some
          (add_hand
            (set_stk (on_co s0 c (fun x -> c_loc x (LH t))) t ((FKer (c,
              K0)) :: rest)) t c)
        in
        (match (s.co c).gst with
         | GLive ->
           (match (s.co c).upc with
            | Idle -> go s
            | InJ d ->
              (match call_of s (AC c) d with
               | Some j ->
                 (match j with
                  | JW0 _ -> go s
                  | JW3 (m, b0) -> go (set_call s (AC c) d (JW3p (m, b0)))
                  | _ -> None)
               | None -> None)
            | CRet -> go s
            | _ -> None)
         | _ -> None)
      | _ -> None))
| AFinish (t, v) ->
  (match s.stk t with
   | [] -> None
   | f :: _ ->
     (match f with
      | FRun c ->
        (match (s.co c).gst with
         | GLive ->
           (match (s.co c).upc with
            | Idle ->
              Some (on_co s c (fun x -> c_end x GLive (CF v) (RVal v)))
            | _ -> None)
         | _ -> None)
      | _ -> None))
| APanic (t, v) ->
  (match s.stk t with
   | [] -> None
   | f :: rest ->
     (match f with
      | FRun c ->
        let go = fun s0 -> Some
          (add_hand
            (set_stk
              (on_co s0 c (fun x ->
                c_loc
                  (c_end x GFin
                    (match v with
                     | Some p0 -> PP0 p0
                     | None -> PT1)
                    (match v with
                     | Some p0 -> RPan p0
                     | None -> RCancel)) (LH t))) t ((FPan c) :: rest)) t c)
        in
        if match v with
           | Some _ -> true
           | None -> (s.co c).cancelled
        then (match (s.co c).gst with
              | GLive ->
                (match (s.co c).upc with
                 | Idle -> go s
                 | InJ d ->
                   (match call_of s (AC c) d with
                    | Some j ->
                      (match j with
                       | JW0 _ -> go (end_call s d)
                       | JW3 (_, _) -> go (end_call s d)
                       | _ -> None)
                    | None -> None)
                 | _ -> None)
              | _ -> None)
        else None
      | _ -> None))
| AStep t ->
  (match s.stk t with
   | [] ->
     (match cur s t with
      | Some a ->
        if live_ag s a
        then (match apc s a with
              | SG c ->
                Some
                  (s_rr (set_apc s a (SP (c, (Nat.modulo s.rr s.nw)))) (S
                    s.rr))
              | SP (c, k) ->
                if memb c (s.hand t)
                then Some
                       (set_apc
                         (pushq
                           (del_hand (on_co s c (fun x -> c_loc x (LG k))) t
                             c) (QG k) c) a (SW k))
                else None
              | SW _ -> Some (set_apc s a Idle)
              | InJ d ->
                (match call_of s a d with
                 | Some j ->
                   (match j with
                    | JW0 m ->
                      if (s.co d).jstate
                      then Some (set_call s a d (JW1 m))
                      else (match m with
                            | MJoin -> Some (set_call s a d JT1)
                            | MWait -> Some (set_apc (end_call s d) a Idle))
                    | JW1 m ->
                      let b0 = s.nextb in
                      Some
                      (on_co (s_newb s d) d (fun x ->
                        c_jcall (c_jwake x (Some b0)) (Some (a, (JW2 (m,
                          b0))))))
                    | JW2 (m, b0) ->
                      Some
                        (set_call s a d
                          (if (s.co d).jstate
                           then JW3 (m, b0)
                           else JW4 (m, b0)))
                    | JW3 (m, b0) ->
                      if s.tok b0
                      then Some
                             (s_tok (set_call s a d (JW0 m))
                               (upd s.tok b0 false))
                      else (match a with
                            | AT _ -> Some (set_call s a d (JW3p (m, b0)))
                            | AC _ -> None)
                    | JW3p (m, b0) ->
                      (match a with
                       | AT _ ->
                         if s.tok b0
                         then Some
                                (s_tok (set_call s a d (JW0 m))
                                  (upd s.tok b0 false))
                         else None
                       | AC _ -> None)
                    | JW4 (m, _) ->
                      Some
                        (on_co s d (fun x ->
                          c_jcall (c_jwake x None) (Some (a, (JW0 m)))))
                    | JT1 ->
                      (match (s.co d).pkt with
                       | Some v ->
                         Some
                           (set_apc
                             (on_co s d (fun x ->
                               c_jfin (c_ptaken (c_pkt x None)) (RVal v))) a
                             Idle)
                       | None -> Some (set_call s a d JT2))
                    | JT2 ->
                      (match (s.co d).pan with
                       | Some v ->
                         Some
                           (set_apc
                             (on_co s d (fun x ->
                               c_jfin (c_pan x None) (RPan v))) a Idle)
                       | None ->
                         Some
                           (set_apc (on_co s d (fun x -> c_jfin x RCancel)) a
                             Idle)))
                 | None -> None)
              | ID0 _ -> Some (set_apc s a Idle)
              | CF v ->
                (match a with
                 | AT _ -> None
                 | AC c ->
                   Some (on_co s c (fun x -> c_upc (c_pkt x (Some v)) CT1)))
              | CT1 ->
                (match a with
                 | AT _ -> None
                 | AC c ->
                   Some (on_co s c (fun x -> c_upc (c_jstate x false) CT2)))
              | CT2 ->
                (match a with
                 | AT _ -> None
                 | AC c -> Some (take_wake s c (fun x -> CT3 x) CRet))
              | CT3 w ->
                (match a with
                 | AT _ -> None
                 | AC c ->
                   Some
                     (on_co (s_punp s (app s.punp (w :: []))) c (fun x ->
                       c_upc x CRet)))
              | CRet ->
                (match a with
                 | AT _ -> None
                 | AC c ->
                   (match s.stk t with
                    | [] -> None
                    | _ :: rest ->
                      Some
                        (add_hand
                          (set_stk
                            (on_co s c (fun x -> c_loc (c_gst x GFin) (LH t)))
                            t ((FKer (c, KD)) :: rest)) t c)))
              | _ -> None)
        else None
      | None -> None)
   | f :: rest ->
     (match f with
      | FRun _ ->
        (match cur s t with
         | Some a ->
           if live_ag s a
           then (match apc s a with
                 | SG c ->
                   Some
                     (s_rr (set_apc s a (SP (c, (Nat.modulo s.rr s.nw)))) (S
                       s.rr))
                 | SP (c, k) ->
                   if memb c (s.hand t)
                   then Some
                          (set_apc
                            (pushq
                              (del_hand (on_co s c (fun x -> c_loc x (LG k)))
                                t c) (QG k) c) a (SW k))
                   else None
                 | SW _ -> Some (set_apc s a Idle)
                 | InJ d ->
                   (match call_of s a d with
                    | Some j ->
                      (match j with
                       | JW0 m ->
                         if (s.co d).jstate
                         then Some (set_call s a d (JW1 m))
                         else (match m with
                               | MJoin -> Some (set_call s a d JT1)
                               | MWait -> Some (set_apc (end_call s d) a Idle))
                       | JW1 m ->
                         let b0 = s.nextb in
                         Some
                         (on_co (s_newb s d) d (fun x ->
                           c_jcall (c_jwake x (Some b0)) (Some (a, (JW2 (m,
                             b0))))))
                       | JW2 (m, b0) ->
                         Some
                           (set_call s a d
                             (if (s.co d).jstate
                              then JW3 (m, b0)
                              else JW4 (m, b0)))
                       | JW3 (m, b0) ->
                         if s.tok b0
                         then Some
                                (s_tok (set_call s a d (JW0 m))
                                  (upd s.tok b0 false))
                         else (match a with
                               | AT _ -> Some (set_call s a d (JW3p (m, b0)))
                               | AC _ -> None)
                       | JW3p (m, b0) ->
                         (match a with
                          | AT _ ->
                            if s.tok b0
                            then Some
                                   (s_tok (set_call s a d (JW0 m))
                                     (upd s.tok b0 false))
                            else None
                          | AC _ -> None)
                       | JW4 (m, _) ->
                         Some
                           (on_co s d (fun x ->
                             c_jcall (c_jwake x None) (Some (a, (JW0 m)))))
                       | JT1 ->
                         (match (s.co d).pkt with
                          | Some v ->
                            Some
                              (set_apc
                                (on_co s d (fun x ->
                                  c_jfin (c_ptaken (c_pkt x None)) (RVal v)))
                                a Idle)
                          | None -> Some (set_call s a d JT2))
                       | JT2 ->
                         (match (s.co d).pan with
                          | Some v ->
                            Some
                              (set_apc
                                (on_co s d (fun x ->
                                  c_jfin (c_pan x None) (RPan v))) a Idle)
                          | None ->
                            Some
                              (set_apc
                                (on_co s d (fun x -> c_jfin x RCancel)) a
                                Idle)))
                    | None -> None)
                 | ID0 _ -> Some (set_apc s a Idle)
                 | CF v ->
                   (match a with
                    | AT _ -> None
                    | AC c ->
                      Some (on_co s c (fun x -> c_upc (c_pkt x (Some v)) CT1)))
                 | CT1 ->
                   (match a with
                    | AT _ -> None
                    | AC c ->
                      Some (on_co s c (fun x -> c_upc (c_jstate x false) CT2)))
                 | CT2 ->
                   (match a with
                    | AT _ -> None
                    | AC c -> Some (take_wake s c (fun x -> CT3 x) CRet))
                 | CT3 w ->
                   (match a with
                    | AT _ -> None
                    | AC c ->
                      Some
                        (on_co (s_punp s (app s.punp (w :: []))) c (fun x ->
                          c_upc x CRet)))
                 | CRet ->
                   (match a with
                    | AT _ -> None
                    | AC c ->
                      (match s.stk t with
                       | [] -> None
                       | _ :: rest0 ->
                         Some
                           (add_hand
                             (set_stk
                               (on_co s c (fun x ->
                                 c_loc (c_gst x GFin) (LH t))) t ((FKer (c,
                               KD)) :: rest0)) t c)))
                 | _ -> None)
           else None
         | None -> None)
      | FKer (_, _) -> None
      | FPan c ->
        (match (s.co c).upc with
         | PP0 v -> Some (on_co s c (fun x -> c_upc (c_pan x (Some v)) PT1))
         | PT1 -> Some (on_co s c (fun x -> c_upc (c_jstate x false) PT2))
         | PT2 -> Some (take_wake s c (fun x -> PT3 x) PD)
         | PT3 w ->
           Some
             (on_co (s_punp s (app s.punp (w :: []))) c (fun x -> c_upc x PD))
         | PD ->
           if memb c (s.hand t)
           then Some
                  (s_dead
                    (set_stk
                      (del_hand (on_co s c (fun x -> c_loc x LDead)) t c) t
                      rest) (c :: s.dead))
           else None
         | _ -> None)))
| AFire t ->
  (match s.stk t with
   | [] ->
     (match s.tpc t with
      | InJ d ->
        (match call_of s (AT t) d with
         | Some j ->
           (match j with
            | JW3p (m, b0) ->
              Some (s_tok (set_call s (AT t) d (JW0 m)) (upd s.tok b0 false))
            | _ -> None)
         | None -> None)
      | _ -> None)
   | _ :: _ -> None)
| KLocal t ->
  (match s.stk t with
   | [] -> None
   | f :: rest ->
     (match f with
      | FKer (c, k) ->
        (match k with
         | K0 ->
           if memb c (s.hand t)
           then Some
                  (set_stk
                    (pushq
                      (del_hand (on_co s c (fun x -> c_loc x (LL t))) t c)
                      (QL t) c) t ((FKer (c, KEnd)) :: rest))
           else None
         | _ -> None)
      | _ -> None))
| KFA t ->
  (match s.stk t with
   | [] -> None
   | f :: rest ->
     (match f with
      | FKer (c, k) ->
        (match k with
         | K0 ->
           Some
             (s_rr
               (set_stk s t ((FKer (c, (KG (Nat.modulo s.rr s.nw)))) :: rest))
               (S s.rr))
         | _ -> None)
      | _ -> None))
| KStep t ->
  (match s.stk t with
   | [] -> None
   | f :: rest ->
     (match f with
      | FKer (c, k0) ->
        (match k0 with
         | KG k ->
           if memb c (s.hand t)
           then Some
                  (set_stk
                    (pushq
                      (del_hand (on_co s c (fun x -> c_loc x (LG k))) t c)
                      (QG k) c) t ((FKer (c, (KW k))) :: rest))
           else None
         | KW _ -> Some (set_stk s t ((FKer (c, KEnd)) :: rest))
         | _ -> None)
      | _ -> None))
| KStore t ->
  (match s.stk t with
   | [] -> None
   | f :: rest ->
     (match f with
      | FKer (c, k) ->
        (match k with
         | K0 ->
           if memb c (s.hand t)
           then Some
                  (set_stk
                    (s_slots
                      (del_hand (on_co s c (fun x -> c_loc x LSlot)) t c)
                      (app s.slots (c :: []))) t ((FKer (c, KRe)) :: rest))
           else None
         | _ -> None)
      | _ -> None))
| KSelfTake t ->
  (match s.stk t with
   | [] -> None
   | f :: rest ->
     (match f with
      | FKer (c, k) ->
        (match k with
         | KRe ->
           if memb c s.slots
           then Some
                  (set_stk
                    (add_hand
                      (s_slots (on_co s c (fun x -> c_loc x (LH t)))
                        (rm c s.slots)) t c) t ((FKer (c, KRun)) :: rest))
           else None
         | _ -> None)
      | _ -> None))
| KSkip t ->
  (match s.stk t with
   | [] -> None
   | f :: rest ->
     (match f with
      | FKer (c, k) ->
        (match k with
         | KRe -> Some (set_stk s t ((FKer (c, KEnd)) :: rest))
         | _ -> None)
      | _ -> None))
| KDrop t ->
  (match s.stk t with
   | [] -> None
   | f :: rest ->
     (match f with
      | FKer (c, k) ->
        (match k with
         | KD ->
           if memb c (s.hand t)
           then Some
                  (s_dead
                    (set_stk
                      (del_hand (on_co s c (fun x -> c_loc x LDead)) t c) t
                      ((FKer (c, KEnd)) :: rest)) (c :: s.dead))
           else None
         | _ -> None)
      | _ -> None))
| KSubscribed t ->
  (match s.stk t with
   | [] -> None
   | f :: rest ->
     (match f with
      | FKer (_, k) ->
        (match k with
         | KEnd -> Some (set_stk s t rest)
         | _ -> None)
      | _ -> None))
| Grab (t, q) ->
  if base_idle s t
  then (match getq s q with
        | [] -> None
        | c :: r ->
          Some (add_hand (setq (on_co s c (fun x -> c_loc x (LH t))) q r) t c))
  else None
| Put t ->
  if base_idle s t
  then (match s.hand t with
        | [] -> None
        | c :: _ ->
          Some
            (pushq (del_hand (on_co s c (fun x -> c_loc x (LL t))) t c) (QL
              t) c))
  else None
| TakeSlot (t, c) ->
  if (&&) (base_idle s t) (memb c s.slots)
  then Some
         (add_hand
           (s_slots (on_co s c (fun x -> c_loc x (LH t))) (rm c s.slots)) t c)
  else None
| Resume (t, c) ->
  if memb c (s.hand t)
  then (match (s.co c).gst with
        | GInit ->
          let s1 =
            del_hand (on_co (park_ret s c) c (fun x -> c_resume x (LRun t)))
              t c
          in
          (match s.stk t with
           | [] ->
             let l = [] in
             (match cur s t with
              | Some a ->
                (match apc s a with
                 | Idle ->
                   (match l with
                    | [] -> Some (set_stk s1 t ((FRun c) :: []))
                    | _ :: _ -> None)
                 | SL c' ->
                   if (&&) (Nat.eqb c' c) (live_ag s a)
                   then Some (set_stk (set_apc s1 a Idle) t ((FRun c) :: l))
                   else None
                 | _ -> None)
              | None -> None)
           | f :: rest ->
             (match f with
              | FKer (c', k) ->
                (match k with
                 | KRun ->
                   if Nat.eqb c' c
                   then Some
                          (set_stk s1 t ((FRun c) :: ((FKer (c,
                            KEnd)) :: rest)))
                   else None
                 | x ->
                   let l = (FKer (c', x)) :: rest in
                   (match cur s t with
                    | Some a ->
                      (match apc s a with
                       | Idle ->
                         (match l with
                          | [] -> Some (set_stk s1 t ((FRun c) :: []))
                          | _ :: _ -> None)
                       | SL c'0 ->
                         if (&&) (Nat.eqb c'0 c) (live_ag s a)
                         then Some
                                (set_stk (set_apc s1 a Idle) t ((FRun
                                  c) :: l))
                         else None
                       | _ -> None)
                    | None -> None))
              | x ->
                let l = x :: rest in
                (match cur s t with
                 | Some a ->
                   (match apc s a with
                    | Idle ->
                      (match l with
                       | [] -> Some (set_stk s1 t ((FRun c) :: []))
                       | _ :: _ -> None)
                    | SL c' ->
                      if (&&) (Nat.eqb c' c) (live_ag s a)
                      then Some
                             (set_stk (set_apc s1 a Idle) t ((FRun c) :: l))
                      else None
                    | _ -> None)
                 | None -> None)))
        | GLive ->
          let s1 =
            del_hand (on_co (park_ret s c) c (fun x -> c_resume x (LRun t)))
              t c
          in
          (match s.stk t with
           | [] ->
             let l = [] in
             (match cur s t with
              | Some a ->
                (match apc s a with
                 | Idle ->
                   (match l with
                    | [] -> Some (set_stk s1 t ((FRun c) :: []))
                    | _ :: _ -> None)
                 | SL c' ->
                   if (&&) (Nat.eqb c' c) (live_ag s a)
                   then Some (set_stk (set_apc s1 a Idle) t ((FRun c) :: l))
                   else None
                 | _ -> None)
              | None -> None)
           | f :: rest ->
             (match f with
              | FKer (c', k) ->
                (match k with
                 | KRun ->
                   if Nat.eqb c' c
                   then Some
                          (set_stk s1 t ((FRun c) :: ((FKer (c,
                            KEnd)) :: rest)))
                   else None
                 | x ->
                   let l = (FKer (c', x)) :: rest in
                   (match cur s t with
                    | Some a ->
                      (match apc s a with
                       | Idle ->
                         (match l with
                          | [] -> Some (set_stk s1 t ((FRun c) :: []))
                          | _ :: _ -> None)
                       | SL c'0 ->
                         if (&&) (Nat.eqb c'0 c) (live_ag s a)
                         then Some
                                (set_stk (set_apc s1 a Idle) t ((FRun
                                  c) :: l))
                         else None
                       | _ -> None)
                    | None -> None))
              | x ->
                let l = x :: rest in
                (match cur s t with
                 | Some a ->
                   (match apc s a with
                    | Idle ->
                      (match l with
                       | [] -> Some (set_stk s1 t ((FRun c) :: []))
                       | _ :: _ -> None)
                    | SL c' ->
                      if (&&) (Nat.eqb c' c) (live_ag s a)
                      then Some
                             (set_stk (set_apc s1 a Idle) t ((FRun c) :: l))
                      else None
                    | _ -> None)
                 | None -> None)))
        | GFin -> None)
  else None
| Wake (c, q) ->
  if memb c s.slots
  then Some
         (pushq
           (s_slots (on_co s c (fun x -> c_loc x (qloc q))) (rm c s.slots)) q
           c)
  else None
| DoUnpark (w, q) ->
  if memb w s.punp
  then let s1 = s_tok (s_punp s (rm1 w s.punp)) (upd s.tok w true) in
       (match (s.co (s.bjoin w)).jcall with
        | Some p0 ->
          let (a, j) = p0 in
          (match a with
           | AT _ -> Some s1
           | AC c ->
             (match j with
              | JW3p (_, b0) ->
                if (&&) (memb c s1.slots) (Nat.eqb b0 w)
                then Some
                       (pushq
                         (s_slots (on_co s1 c (fun x -> c_loc x (qloc q)))
                           (rm c s1.slots)) q c)
                else Some s1
              | _ -> Some s1))
        | None -> Some s1)
  else None

(** val init : nat -> st **)

let init workers =
  mk (fun _ -> cor0) (fun _ -> []) (fun _ -> []) (fun _ -> []) (fun _ -> [])
    [] [] (fun _ -> Idle) (fun _ -> false) (fun _ -> O) O [] O workers

type params = { push_first : bool; work_steal : bool; cfg_tmo : n;
                budgeted : bool; budget : nat; interval : nat }

type ret =
| RRun
| RSt
| RTim
| RIo of bool

type cfrom =
| FromEv
| FromRun
| FromBud

type lpc =
| PWait
| PSleep
| PEvs of bool
| PIo of bool
| PColl of cfrom
| PPut of cfrom
| PRun
| PRes of ret
| PCo of ret
| PHas
| PSteal of nat
| PStPut
| PTim

type lst = { base : st; wpc : (nat -> lpc); evfd : (nat -> bool);
             tmo : (nat -> n option); dl : (nat -> n option);
             slept : (nat -> n); now : n; owed : (nat -> nat);
             anon : (nat -> nat); pre : (nat -> nat); npop : (nat -> nat);
             ncoll : (nat -> nat); nsel : (nat -> nat); coll0 : (nat -> nat);
             ngrab : (nat -> nat); ntake : (nat -> nat); bud : (nat -> nat);
             since : (nat -> nat) }

(** val mkl :
    st -> (nat -> lpc) -> (nat -> bool) -> (nat -> n option) -> (nat -> n
    option) -> (nat -> n) -> n -> (nat -> nat) -> (nat -> nat) -> (nat ->
    nat) -> (nat -> nat) -> (nat -> nat) -> (nat -> nat) -> (nat -> nat) ->
    (nat -> nat) -> (nat -> nat) -> (nat -> nat) -> (nat -> nat) -> lst **)

let mkl b0 p0 e t d sl n0 o an pr np nc ns c0 ng nt bu si =
  { base = b0; wpc = p0; evfd = e; tmo = t; dl = d; slept = sl; now = n0;
    owed = o; anon = an; pre = pr; npop = np; ncoll = nc; nsel = ns; coll0 =
    c0; ngrab = ng; ntake = nt; bud = bu; since = si }

(** val l_base : lst -> st -> lst **)

let l_base l x =
  mkl x l.wpc l.evfd l.tmo l.dl l.slept l.now l.owed l.anon l.pre l.npop
    l.ncoll l.nsel l.coll0 l.ngrab l.ntake l.bud l.since

(** val l_wpc : lst -> (nat -> lpc) -> lst **)

let l_wpc l x =
  mkl l.base x l.evfd l.tmo l.dl l.slept l.now l.owed l.anon l.pre l.npop
    l.ncoll l.nsel l.coll0 l.ngrab l.ntake l.bud l.since

(** val l_evfd : lst -> (nat -> bool) -> lst **)

let l_evfd l x =
  mkl l.base l.wpc x l.tmo l.dl l.slept l.now l.owed l.anon l.pre l.npop
    l.ncoll l.nsel l.coll0 l.ngrab l.ntake l.bud l.since

(** val l_tmo : lst -> (nat -> n option) -> lst **)

let l_tmo l x =
  mkl l.base l.wpc l.evfd x l.dl l.slept l.now l.owed l.anon l.pre l.npop
    l.ncoll l.nsel l.coll0 l.ngrab l.ntake l.bud l.since

(** val l_dl : lst -> (nat -> n option) -> lst **)

let l_dl l x =
  mkl l.base l.wpc l.evfd l.tmo x l.slept l.now l.owed l.anon l.pre l.npop
    l.ncoll l.nsel l.coll0 l.ngrab l.ntake l.bud l.since

(** val l_slept : lst -> (nat -> n) -> lst **)

let l_slept l x =
  mkl l.base l.wpc l.evfd l.tmo l.dl x l.now l.owed l.anon l.pre l.npop
    l.ncoll l.nsel l.coll0 l.ngrab l.ntake l.bud l.since

(** val l_now : lst -> n -> lst **)

let l_now l x =
  mkl l.base l.wpc l.evfd l.tmo l.dl l.slept x l.owed l.anon l.pre l.npop
    l.ncoll l.nsel l.coll0 l.ngrab l.ntake l.bud l.since

(** val l_owed : lst -> (nat -> nat) -> lst **)

let l_owed l x =
  mkl l.base l.wpc l.evfd l.tmo l.dl l.slept l.now x l.anon l.pre l.npop
    l.ncoll l.nsel l.coll0 l.ngrab l.ntake l.bud l.since

(** val l_anon : lst -> (nat -> nat) -> lst **)

let l_anon l x =
  mkl l.base l.wpc l.evfd l.tmo l.dl l.slept l.now l.owed x l.pre l.npop
    l.ncoll l.nsel l.coll0 l.ngrab l.ntake l.bud l.since

(** val l_pre : lst -> (nat -> nat) -> lst **)

let l_pre l x =
  mkl l.base l.wpc l.evfd l.tmo l.dl l.slept l.now l.owed l.anon x l.npop
    l.ncoll l.nsel l.coll0 l.ngrab l.ntake l.bud l.since

(** val l_npop : lst -> (nat -> nat) -> lst **)

let l_npop l x =
  mkl l.base l.wpc l.evfd l.tmo l.dl l.slept l.now l.owed l.anon l.pre x
    l.ncoll l.nsel l.coll0 l.ngrab l.ntake l.bud l.since

(** val l_ncoll : lst -> (nat -> nat) -> lst **)

let l_ncoll l x =
  mkl l.base l.wpc l.evfd l.tmo l.dl l.slept l.now l.owed l.anon l.pre l.npop
    x l.nsel l.coll0 l.ngrab l.ntake l.bud l.since

(** val l_nsel : lst -> (nat -> nat) -> lst **)

let l_nsel l x =
  mkl l.base l.wpc l.evfd l.tmo l.dl l.slept l.now l.owed l.anon l.pre l.npop
    l.ncoll x l.coll0 l.ngrab l.ntake l.bud l.since

(** val l_coll0 : lst -> (nat -> nat) -> lst **)

let l_coll0 l x =
  mkl l.base l.wpc l.evfd l.tmo l.dl l.slept l.now l.owed l.anon l.pre l.npop
    l.ncoll l.nsel x l.ngrab l.ntake l.bud l.since

(** val l_ngrab : lst -> (nat -> nat) -> lst **)

let l_ngrab l x =
  mkl l.base l.wpc l.evfd l.tmo l.dl l.slept l.now l.owed l.anon l.pre l.npop
    l.ncoll l.nsel l.coll0 x l.ntake l.bud l.since

(** val l_ntake : lst -> (nat -> nat) -> lst **)

let l_ntake l x =
  mkl l.base l.wpc l.evfd l.tmo l.dl l.slept l.now l.owed l.anon l.pre l.npop
    l.ncoll l.nsel l.coll0 l.ngrab x l.bud l.since

(** val l_bud : lst -> (nat -> nat) -> lst **)

let l_bud l x =
  mkl l.base l.wpc l.evfd l.tmo l.dl l.slept l.now l.owed l.anon l.pre l.npop
    l.ncoll l.nsel l.coll0 l.ngrab l.ntake x l.since

(** val l_since : lst -> (nat -> nat) -> lst **)

let l_since l x =
  mkl l.base l.wpc l.evfd l.tmo l.dl l.slept l.now l.owed l.anon l.pre l.npop
    l.ncoll l.nsel l.coll0 l.ngrab l.ntake l.bud x

(** val set_pc : lst -> nat -> lpc -> lst **)

let set_pc l w p0 =
  l_wpc l (upd l.wpc w p0)

(** val set_evfd : lst -> nat -> bool -> lst **)

let set_evfd l k b0 =
  l_evfd l (upd l.evfd k b0)

(** val inc : (nat -> nat) -> nat -> nat -> nat **)

let inc f k =
  upd f k (S (f k))

(** val dec : (nat -> nat) -> nat -> nat -> nat **)

let dec f k =
  upd f k (Nat.pred (f k))

(** val grabbed : lst -> nat option -> lst **)

let grabbed l = function
| Some c -> l_ngrab l (inc l.ngrab c)
| None -> l

(** val taken : lst -> nat option -> lst **)

let taken l = function
| Some c -> l_ntake l (inc l.ntake c)
| None -> l

(** val is_nil : 'a1 list -> bool **)

let is_nil = function
| [] -> true
| _ :: _ -> false

(** val is_zero : n option -> bool **)

let is_zero = function
| Some n0 -> (match n0 with
              | N0 -> true
              | Npos _ -> false)
| None -> false

(** val is_co : lpc -> bool **)

let is_co = function
| PCo _ -> true
| _ -> false

(** val rnd : n -> n **)

let rnd t =
  N.mul
    (N.div
      (N.add t (Npos (XI (XI (XI (XI (XI (XI (XO (XO (XO (XI (XO (XO (XO (XO
        (XI (XO (XI (XI (XI XH))))))))))))))))))))) (Npos (XO (XO (XO (XO (XO
      (XO (XI (XO (XO (XI (XO (XO (XO (XO (XI (XO (XI (XI (XI
      XH))))))))))))))))))))) (Npos (XO (XO (XO (XO (XO (XO (XI (XO (XO (XI
    (XO (XO (XO (XO (XI (XO (XI (XI (XI XH))))))))))))))))))))

(** val maxst : nat -> nat **)

let maxst n0 =
  Nat.min (S (S (S O))) (sub n0 (S O))

(** val victim : nat -> nat -> nat -> nat **)

let victim n0 w i =
  Nat.modulo (add (add w i) (S O)) n0

(** val push_target : st -> action -> qid option **)

let push_target s = function
| AStep t ->
  (match cur s t with
   | Some ag0 -> (match apc s ag0 with
                  | SP (_, k) -> Some (QG k)
                  | _ -> None)
   | None -> None)
| KLocal t -> Some (QL t)
| KStep t ->
  (match s.stk t with
   | [] -> None
   | f :: _ ->
     (match f with
      | FKer (_, k0) -> (match k0 with
                         | KG k -> Some (QG k)
                         | _ -> None)
      | _ -> None))
| Put t -> Some (QL t)
| Wake (_, q) -> Some q
| DoUnpark (_, q) -> Some q
| _ -> None

(** val is_anon : action -> bool **)

let is_anon = function
| Wake (_, _) -> true
| DoUnpark (_, _) -> true
| _ -> false

(** val wake_target : st -> action -> nat option **)

let wake_target s = function
| AStep t ->
  (match cur s t with
   | Some ag0 -> (match apc s ag0 with
                  | SW k -> Some k
                  | _ -> None)
   | None -> None)
| KStep t ->
  (match s.stk t with
   | [] -> None
   | f :: _ ->
     (match f with
      | FKer (_, k0) -> (match k0 with
                         | KW k -> Some k
                         | _ -> None)
      | _ -> None))
| _ -> None

(** val fetch_target : st -> action -> nat option **)

let fetch_target s = function
| ASpawn (_, _, id, local) ->
  (match id with
   | Some i -> if local then None else Some (Nat.modulo i s.nw)
   | None -> None)
| AStep t ->
  (match cur s t with
   | Some ag0 ->
     (match apc s ag0 with
      | SG _ -> Some (Nat.modulo s.rr s.nw)
      | _ -> None)
   | None -> None)
| KFA _ -> Some (Nat.modulo s.rr s.nw)
| _ -> None

(** val thread_ok : lst -> nat -> bool **)

let thread_ok l t =
  if Nat.ltb t l.base.nw
  then (&&) (is_co (l.wpc t)) (negb (is_nil (l.base.stk t)))
  else true

(** val base_ok : params -> lst -> action -> bool **)

let base_ok p0 l b0 =
  let n0 = l.base.nw in
  (match b0 with
   | ASpawn (t, _, _, _) -> thread_ok l t
   | AJoin (t, _, _) -> thread_ok l t
   | AIsDone (t, _) -> thread_ok l t
   | ACancel (t, _) -> thread_ok l t
   | AYield t -> thread_ok l t
   | AFinish (t, _) -> thread_ok l t
   | APanic (t, _) -> thread_ok l t
   | AStep t -> thread_ok l t
   | AFire t -> thread_ok l t
   | KLocal t -> (&&) (Nat.ltb t n0) (thread_ok l t)
   | KFA t -> thread_ok l t
   | KStep t -> thread_ok l t
   | KStore t -> thread_ok l t
   | KSelfTake t -> thread_ok l t
   | KSkip t -> thread_ok l t
   | KDrop t -> thread_ok l t
   | KSubscribed t -> thread_ok l t
   | TakeSlot (t, _) -> Nat.leb n0 t
   | Resume (t, _) -> thread_ok l t
   | Wake (_, q) ->
     (match q with
      | QG k -> (&&) (Nat.ltb k n0) ((||) p0.push_first (Nat.ltb O (l.pre k)))
      | QL t -> (&&) (Nat.ltb t n0) (is_co (l.wpc t)))
   | DoUnpark (_, q) ->
     (match q with
      | QG k -> (&&) (Nat.ltb k n0) ((||) p0.push_first (Nat.ltb O (l.pre k)))
      | QL t -> (&&) (Nat.ltb t n0) (is_co (l.wpc t)))
   | _ -> false)

type laction =
| LBase of action
| LPoll of nat * bool
| LWake of nat * bool
| LTimeout of nat
| LIoTake of nat * nat
| LEvRead of nat
| LEvDone of nat
| LBulkGrab of nat
| LBulkEnd of nat
| LPut of nat
| LPop of nat
| LResume of nat
| LCoRet of nat
| LHas of nat
| LStGrab of nat
| LStEnd of nat
| LStOut of nat
| LTmTake of nat * nat
| LTmDone of nat * n option
| LAnonWake of nat
| LAnonPre of nat
| LSpurWake of nat
| LTick of n

(** val guard : params -> lst -> laction -> bool **)

let guard p0 l a =
  let s = l.base in
  let n0 = s.nw in
  (match a with
   | LBase b0 -> base_ok p0 l b0
   | LPoll (w, _) ->
     (&&) (Nat.ltb w n0) (match l.wpc w with
                          | PWait -> true
                          | _ -> false)
   | LWake (w, io) ->
     (&&) (Nat.ltb w n0)
       (match l.wpc w with
        | PSleep -> (||) (l.evfd w) io
        | _ -> false)
   | LTimeout w ->
     (&&) (Nat.ltb w n0)
       (match l.wpc w with
        | PSleep ->
          (match l.dl w with
           | Some d -> (&&) (N.leb d l.now) (negb (l.evfd w))
           | None -> false)
        | _ -> false)
   | LIoTake (w, _) ->
     (&&) (Nat.ltb w n0) (match l.wpc w with
                          | PEvs _ -> true
                          | _ -> false)
   | LEvRead w ->
     (&&) (Nat.ltb w n0) (match l.wpc w with
                          | PEvs e -> e
                          | _ -> false)
   | LEvDone w ->
     (&&) (Nat.ltb w n0)
       (match l.wpc w with
        | PEvs e -> if e then false else true
        | _ -> false)
   | LBulkGrab w ->
     (&&) (Nat.ltb w n0) (match l.wpc w with
                          | PColl _ -> true
                          | _ -> false)
   | LBulkEnd w ->
     (&&) (Nat.ltb w n0)
       (match l.wpc w with
        | PColl _ ->
          (match s.hand w with
           | [] -> is_nil (s.gq w)
           | _ :: _ -> true)
        | _ -> false)
   | LPut w ->
     (&&) (Nat.ltb w n0)
       (match l.wpc w with
        | PIo _ -> true
        | PPut _ -> true
        | PStPut -> true
        | _ -> false)
   | LPop w ->
     (&&) (Nat.ltb w n0) (match l.wpc w with
                          | PRun -> true
                          | _ -> false)
   | LResume w ->
     (&&) (Nat.ltb w n0)
       (match l.wpc w with
        | PRes _ -> negb (is_nil (s.hand w))
        | _ -> false)
   | LCoRet w ->
     (&&) (Nat.ltb w n0)
       (match l.wpc w with
        | PCo _ -> (&&) (is_nil (s.stk w)) (is_nil (s.hand w))
        | _ -> false)
   | LHas w ->
     (&&) (Nat.ltb w n0) (match l.wpc w with
                          | PHas -> true
                          | _ -> false)
   | LStGrab w ->
     (&&) (Nat.ltb w n0)
       (match l.wpc w with
        | PSteal i -> Nat.ltb i (maxst n0)
        | _ -> false)
   | LStEnd w ->
     (&&) (Nat.ltb w n0)
       (match l.wpc w with
        | PSteal i -> Nat.ltb i (maxst n0)
        | _ -> false)
   | LStOut w ->
     (&&) (Nat.ltb w n0)
       (match l.wpc w with
        | PSteal i -> Nat.leb (maxst n0) i
        | _ -> false)
   | LTmTake (w, _) ->
     (&&) (Nat.ltb w n0) (match l.wpc w with
                          | PTim -> true
                          | _ -> false)
   | LTmDone (w, _) ->
     (&&) (Nat.ltb w n0) (match l.wpc w with
                          | PTim -> true
                          | _ -> false)
   | LAnonWake k ->
     (&&) ((&&) (Nat.ltb k n0) p0.push_first) (Nat.ltb O (l.anon k))
   | LAnonPre k -> (&&) (Nat.ltb k n0) (negb p0.push_first)
   | LSpurWake k -> Nat.ltb k n0
   | LTick _ -> true)

(** val proj : lst -> laction -> action option **)

let proj l a =
  let s = l.base in
  (match a with
   | LBase b0 -> Some b0
   | LIoTake (w, c) -> Some (TakeSlot (w, c))
   | LBulkGrab w -> Some (Grab (w, (QG w)))
   | LPut w -> Some (Put w)
   | LPop w ->
     (match s.lq w with
      | [] -> None
      | _ :: _ -> Some (Grab (w, (QL w))))
   | LResume w ->
     (match s.hand w with
      | [] -> None
      | c :: _ -> Some (Resume (w, c)))
   | LStGrab w ->
     (match l.wpc w with
      | PSteal i -> Some (Grab (w, (QL (victim s.nw w i))))
      | _ -> None)
   | LTmTake (w, c) -> Some (TakeSlot (w, c))
   | _ -> None)

(** val ctl_base : params -> lst -> action -> lst -> lst **)

let ctl_base p0 l b0 l0 =
  let s = l.base in
  let l1 =
    match push_target s b0 with
    | Some q ->
      (match q with
       | QG k ->
         if p0.push_first
         then if is_anon b0
              then l_anon l0 (inc l0.anon k)
              else l_owed l0 (inc l0.owed k)
         else if is_anon b0 then l_pre l0 (dec l0.pre k) else l0
       | QL _ -> l0)
    | None -> l0
  in
  let l2 =
    match wake_target s b0 with
    | Some k ->
      if p0.push_first
      then set_evfd (l_owed l1 (dec l1.owed k)) k true
      else l1
    | None -> l1
  in
  (match fetch_target s b0 with
   | Some k -> if p0.push_first then l2 else set_evfd l2 k true
   | None -> l2)

(** val ctl : params -> lst -> laction -> st -> lst **)

let ctl p0 l a s' =
  let s = l.base in
  let n0 = s.nw in
  let l0 = l_base l s' in
  (match a with
   | LBase b0 -> ctl_base p0 l b0 l0
   | LPoll (w, io) ->
     if (||) ((||) (l.evfd w) io) (is_zero (l.tmo w))
     then set_pc l0 w (PEvs (l.evfd w))
     else l_slept
            (l_dl (set_pc l0 w PSleep)
              (upd l.dl w
                (option_map (fun t -> N.add l.now (rnd t)) (l.tmo w))))
            (upd l.slept w l.now)
   | LWake (w, _) -> set_pc l0 w (PEvs (l.evfd w))
   | LTimeout w -> set_pc l0 w (PEvs false)
   | LIoTake (w, _) ->
     (match l.wpc w with
      | PEvs e -> set_pc l0 w (if p0.work_steal then PIo e else PRes (RIo e))
      | _ -> l0)
   | LEvRead w -> set_pc (set_evfd l0 w false) w (PColl FromEv)
   | LEvDone w ->
     set_pc (l_since (l_bud l0 (upd l.bud w p0.budget)) (upd l.since w O)) w
       PRun
   | LBulkGrab w -> grabbed l0 (hd_error (s.gq w))
   | LBulkEnd w ->
     (match l.wpc w with
      | PColl r ->
        (match s.hand w with
         | [] ->
           set_pc (l_since (l_ncoll l0 (inc l.ncoll w)) (upd l.since w O)) w
             (match r with
              | FromEv -> PEvs false
              | FromRun -> PHas
              | FromBud -> PRun)
         | _ :: _ -> set_pc l0 w (PPut r))
      | _ -> l0)
   | LPut w ->
     (match l.wpc w with
      | PIo e -> set_pc l0 w (PEvs e)
      | PPut r -> if is_nil (s'.hand w) then set_pc l0 w (PColl r) else l0
      | PStPut ->
        (match s'.hand w with
         | [] -> l0
         | _ :: l1 ->
           (match l1 with
            | [] -> set_pc l0 w (PRes RSt)
            | _ :: _ -> l0))
      | _ -> l0)
   | LPop w ->
     let l1 = l_npop l0 (inc l.npop w) in
     (match s.lq w with
      | [] -> set_pc l1 w (if p0.work_steal then PColl FromRun else PTim)
      | c :: _ -> set_pc (taken l1 (Some c)) w (PRes RRun))
   | LResume w -> (match l.wpc w with
                   | PRes r -> set_pc l0 w (PCo r)
                   | _ -> l0)
   | LCoRet w ->
     (match l.wpc w with
      | PCo r ->
        (match r with
         | RRun ->
           if p0.budgeted
           then let b0 = Nat.pred (l.bud w) in
                set_pc (l_since (l_bud l0 (upd l.bud w b0)) (inc l.since w))
                  w
                  (if Nat.eqb b0 O
                   then PTim
                   else if Nat.eqb (Nat.modulo b0 p0.interval) O
                        then PColl FromBud
                        else PRun)
           else set_pc l0 w PRun
         | RSt -> set_pc l0 w PRun
         | RTim -> set_pc l0 w PTim
         | RIo e -> set_pc l0 w (PEvs e))
      | _ -> l0)
   | LHas w -> set_pc l0 w (if is_nil (s.lq w) then PSteal O else PRun)
   | LStGrab w ->
     (match l.wpc w with
      | PSteal i -> taken l0 (hd_error (s.lq (victim n0 w i)))
      | _ -> l0)
   | LStEnd w ->
     (match l.wpc w with
      | PSteal i ->
        (match s.hand w with
         | [] -> set_pc l0 w (PSteal (S i))
         | _ :: l1 ->
           (match l1 with
            | [] -> set_pc l0 w (PRes RSt)
            | _ :: _ -> set_pc l0 w PStPut))
      | _ -> l0)
   | LStOut w -> set_pc l0 w PTim
   | LTmTake (w, _) -> set_pc l0 w (PRes RTim)
   | LTmDone (w, nx) ->
     l_coll0
       (l_nsel
         (l_tmo (set_pc l0 w PWait)
           (upd l.tmo w (Some
             (if (&&) p0.budgeted (negb (is_nil (s.lq w)))
              then N0
              else (match nx with
                    | Some t -> t
                    | None -> p0.cfg_tmo))))) (inc l.nsel w))
       (upd l.coll0 w (l.ncoll w))
   | LAnonWake k -> set_evfd (l_anon l0 (dec l.anon k)) k true
   | LAnonPre k -> set_evfd (l_pre l0 (inc l.pre k)) k true
   | LSpurWake k -> set_evfd l0 k true
   | LTick d -> l_now l0 (N.add l.now d))

(** val lstep : params -> lst -> laction -> lst option **)

let lstep p0 l a =
  if guard p0 l a
  then (match proj l a with
        | Some b0 ->
          (match step l.base b0 with
           | Some s' -> Some (ctl p0 l a s')
           | None -> None)
        | None -> Some (ctl p0 l a l.base))
  else None

(** val linit : nat -> lst **)

let linit n0 =
  mkl (init n0) (fun _ -> PWait) (fun _ -> false) (fun _ -> None) (fun _ ->
    None) (fun _ -> N0) N0 (fun _ -> O) (fun _ -> O) (fun _ -> O) (fun _ ->
    O) (fun _ -> O) (fun _ -> O) (fun _ -> O) (fun _ -> O) (fun _ -> O)
    (fun _ -> O) (fun _ -> O)

(** val lruns : params -> lst -> laction list -> lst option **)

let rec lruns p0 l = function
| [] -> Some l
| a :: tr' ->
  (match lstep p0 l a with
   | Some l' -> lruns p0 l' tr'
   | None -> None)

(** val code_params : n -> params **)

let code_params t =
  { push_first = true; work_steal = true; cfg_tmo = t; budgeted = true;
    budget = (S (S (S (S (S (S (S (S (S (S (S (S (S (S (S (S (S (S (S (S (S
    (S (S (S (S (S (S (S (S (S (S (S (S (S (S (S (S (S (S (S (S (S (S (S (S
    (S (S (S (S (S (S (S (S (S (S (S (S (S (S (S (S (S (S (S (S (S (S (S (S
    (S (S (S (S (S (S (S (S (S (S (S (S (S (S (S (S (S (S (S (S (S (S (S (S
    (S (S (S (S (S (S (S (S (S (S (S (S (S (S (S (S (S (S (S (S (S (S (S (S
    (S (S (S (S (S (S (S (S (S (S (S (S (S (S (S (S (S (S (S (S (S (S (S (S
    (S (S (S (S (S (S (S (S (S (S (S (S (S (S (S (S (S (S (S (S (S (S (S (S
    (S (S (S (S (S (S (S (S (S (S (S (S (S (S (S (S (S (S (S (S (S (S (S (S
    (S (S (S (S (S (S (S (S (S (S (S (S (S (S (S (S (S (S (S (S (S (S (S (S
    (S (S (S (S (S (S (S (S (S (S (S (S (S (S (S (S (S (S (S (S (S (S (S (S
    (S (S (S (S (S (S (S (S (S (S (S (S (S (S (S (S (S (S (S
    O))))))))))))))))))))))))))))))))))))))))))))))))))))))))))))))))))))))))))))))))))))))))))))))))))))))))))))))))))))))))))))))))))))))))))))))))))))))))))))))))))))))))))))))))))))))))))))))))))))))))))))))))))))))))))))))))))))))))))))))))))))))))))))))));
    interval = (S (S (S (S (S (S (S (S (S (S (S (S (S (S (S (S (S (S (S (S (S
    (S (S (S (S (S (S (S (S (S (S (S (S (S (S (S (S (S (S (S (S (S (S (S (S
    (S (S (S (S (S (S (S (S (S (S (S (S (S (S (S (S (S (S (S
    O)))))))))))))))))))))))))))))))))))))))))))))))))))))))))))))))) }

type pend =
| PdNone
| PdSpawn of nat
| PdHeld of nat
| PdHeldK of nat * nat
| PdOwe of nat

type aux = { wact : (z * nat) list; bindx : (z * nat) list;
             slotb : (z * nat) list; pnd : (nat -> pend);
             dfr : (nat -> bool); stn : (nat -> nat); cend : (nat -> bool);
             gcl : (nat -> nat); dfp : (nat -> nat); dq : (nat -> nat option) }

(** val aux0 : aux **)

let aux0 =
  { wact = []; bindx = []; slotb = []; pnd = (fun _ -> PdNone); dfr =
    (fun _ -> false); stn = (fun _ -> O); cend = (fun _ -> false); gcl =
    (fun _ -> O); dfp = (fun _ -> O); dq = (fun _ -> None) }

(** val x_wact : aux -> (z * nat) list -> aux **)

let x_wact x v =
  { wact = v; bindx = x.bindx; slotb = x.slotb; pnd = x.pnd; dfr = x.dfr;
    stn = x.stn; cend = x.cend; gcl = x.gcl; dfp = x.dfp; dq = x.dq }

(** val x_bindx : aux -> (z * nat) list -> aux **)

let x_bindx x v =
  { wact = x.wact; bindx = v; slotb = x.slotb; pnd = x.pnd; dfr = x.dfr;
    stn = x.stn; cend = x.cend; gcl = x.gcl; dfp = x.dfp; dq = x.dq }

(** val x_slotb : aux -> (z * nat) list -> aux **)

let x_slotb x v =
  { wact = x.wact; bindx = x.bindx; slotb = v; pnd = x.pnd; dfr = x.dfr;
    stn = x.stn; cend = x.cend; gcl = x.gcl; dfp = x.dfp; dq = x.dq }

(** val x_pnd : aux -> (nat -> pend) -> aux **)

let x_pnd x v =
  { wact = x.wact; bindx = x.bindx; slotb = x.slotb; pnd = v; dfr = x.dfr;
    stn = x.stn; cend = x.cend; gcl = x.gcl; dfp = x.dfp; dq = x.dq }

(** val x_dfr : aux -> (nat -> bool) -> aux **)

let x_dfr x v =
  { wact = x.wact; bindx = x.bindx; slotb = x.slotb; pnd = x.pnd; dfr = v;
    stn = x.stn; cend = x.cend; gcl = x.gcl; dfp = x.dfp; dq = x.dq }

(** val x_stn : aux -> (nat -> nat) -> aux **)

let x_stn x v =
  { wact = x.wact; bindx = x.bindx; slotb = x.slotb; pnd = x.pnd; dfr =
    x.dfr; stn = v; cend = x.cend; gcl = x.gcl; dfp = x.dfp; dq = x.dq }

(** val x_cend : aux -> (nat -> bool) -> aux **)

let x_cend x v =
  { wact = x.wact; bindx = x.bindx; slotb = x.slotb; pnd = x.pnd; dfr =
    x.dfr; stn = x.stn; cend = v; gcl = x.gcl; dfp = x.dfp; dq = x.dq }

(** val x_gcl : aux -> (nat -> nat) -> aux **)

let x_gcl x v =
  { wact = x.wact; bindx = x.bindx; slotb = x.slotb; pnd = x.pnd; dfr =
    x.dfr; stn = x.stn; cend = x.cend; gcl = v; dfp = x.dfp; dq = x.dq }

(** val x_dfp : aux -> (nat -> nat) -> aux **)

let x_dfp x v =
  { wact = x.wact; bindx = x.bindx; slotb = x.slotb; pnd = x.pnd; dfr =
    x.dfr; stn = x.stn; cend = x.cend; gcl = x.gcl; dfp = v; dq = x.dq }

(** val x_dq : aux -> (nat -> nat option) -> aux **)

let x_dq x v =
  { wact = x.wact; bindx = x.bindx; slotb = x.slotb; pnd = x.pnd; dfr =
    x.dfr; stn = x.stn; cend = x.cend; gcl = x.gcl; dfp = x.dfp; dq = v }

(** val set_pnd : aux -> nat -> pend -> aux **)

let set_pnd x t p0 =
  x_pnd x (upd x.pnd t p0)

type ast = { al : lst; acfg : n option; ax : aux }

(** val m_init : ast **)

let m_init =
  { al = (linit O); acfg = None; ax = aux0 }

(** val lookup : z -> (z * nat) list -> nat option **)

let rec lookup x = function
| [] -> None
| p0 :: r -> let (y, j) = p0 in if Z.eqb y x then Some j else lookup x r

(** val bound_to : nat -> (z * nat) list -> bool **)

let rec bound_to j = function
| [] -> false
| p0 :: r -> let (_, i) = p0 in (||) (Nat.eqb i j) (bound_to j r)

(** val unbind : z -> (z * nat) list -> (z * nat) list **)

let rec unbind x = function
| [] -> []
| p0 :: r ->
  let (y, j) = p0 in if Z.eqb y x then unbind x r else (y, j) :: (unbind x r)

(** val guardb : bool -> 'a1 option -> 'a1 option **)

let guardb b0 p0 =
  if b0 then p0 else None

(** val umax : z **)

let umax =
  Zpos (XI (XI (XI (XI (XI (XI (XI (XI (XI (XI (XI (XI (XI (XI (XI (XI (XI
    (XI (XI (XI (XI (XI (XI (XI (XI (XI (XI (XI (XI (XI (XI (XI (XI (XI (XI
    (XI (XI (XI (XI (XI (XI (XI (XI (XI (XI (XI (XI (XI (XI (XI (XI (XI (XI
    (XI (XI (XI (XI (XI (XI (XI (XI (XI (XI
    XH)))))))))))))))))))))))))))))))))))))))))))))))))))))))))))))))

(** val dec_tmo : z -> n option **)

let dec_tmo v =
  if Z.eqb v umax then None else Some (Z.to_N v)

(** val optN_eqb : n option -> n option -> bool **)

let optN_eqb a b0 =
  match a with
  | Some x -> (match b0 with
               | Some y -> N.eqb x y
               | None -> false)
  | None -> (match b0 with
             | Some _ -> false
             | None -> true)

(** val is_pdnone : pend -> bool **)

let is_pdnone = function
| PdNone -> true
| _ -> false

(** val thr : aux -> nat -> z -> nat **)

let thr x n0 za =
  match lookup za x.wact with
  | Some w -> w
  | None -> add n0 (Z.to_nat za)

(** val as_worker : aux -> nat -> z -> nat -> aux option **)

let as_worker x n0 za w =
  if Nat.ltb w n0
  then (match lookup za x.wact with
        | Some w' -> if Nat.eqb w' w then Some x else None
        | None ->
          if bound_to w x.wact
          then None
          else Some (x_wact x ((za, w) :: x.wact)))
  else None

type plan = { acts : laction list; post : (lst -> bool); nxt : aux }

(** val p : laction list -> (lst -> bool) -> aux -> plan option **)

let p l p0 x =
  Some { acts = l; post = p0; nxt = x }

(** val tt_ : lst -> bool **)

let tt_ _ =
  true

(** val b : action list -> laction list **)

let b l =
  map (fun x -> LBase x) l

(** val top_run : st -> nat -> nat option **)

let top_run s t =
  match s.stk t with
  | [] -> None
  | f :: _ -> (match f with
               | FRun c -> Some c
               | _ -> None)

(** val agent_pc : st -> nat -> pc option **)

let agent_pc s t =
  match cur s t with
  | Some a -> Some (apc s a)
  | None -> None

(** val try_act : params -> lst -> laction -> laction list * lst **)

let try_act pm l a =
  match lstep pm l a with
  | Some l' -> ((a :: []), l')
  | None -> ([], l)

(** val settle : params -> lst -> nat -> laction list **)

let settle pm l w =
  let (a1, l1) = if is_co (l.wpc w) then try_act pm l (LCoRet w) else ([], l)
  in
  let (a2, _) =
    match l1.wpc w with
    | PWait -> ([], l1)
    | PSleep -> ([], l1)
    | PEvs _ -> ([], l1)
    | PIo _ -> ([], l1)
    | PColl _ -> ([], l1)
    | PPut _ -> ([], l1)
    | PRun -> ([], l1)
    | PRes _ -> ([], l1)
    | PCo _ -> ([], l1)
    | PHas -> try_act pm l1 (LHas w)
    | _ -> ([], l1)
  in
  app a1 a2

(** val is_loop_code : z -> bool **)

let is_loop_code c =
  (||)
    ((&&) (Z.leb (Zpos (XO (XO (XO (XI (XO XH)))))) c)
      (Z.leb c (Zpos (XO (XO (XI (XI (XO XH))))))))
    ((&&) (Z.leb (Zpos (XO (XI (XI (XI (XO XH)))))) c)
      (Z.leb c (Zpos (XO (XI (XO (XO (XI XH))))))))

(** val pre_ev : params -> lst -> aux -> z list -> laction list * aux **)

let pre_ev pm l x = function
| [] -> ([], x)
| code :: l0 ->
  (match l0 with
   | [] -> ([], x)
   | za :: l1 ->
     (match l1 with
      | [] -> ([], x)
      | o :: l2 ->
        (match l2 with
         | [] -> ([], x)
         | _ :: l3 ->
           (match l3 with
            | [] ->
              let t = thr x l.base.nw za in
              if x.dfr t
              then ((b
                      ((if Z.eqb code (Zpos (XI (XI (XI XH))))
                        then AStep t
                        else AYield t) :: [])), (x_dfr x (upd x.dfr t false)))
              else if is_loop_code code
                   then ((settle pm l (Z.to_nat o)), x)
                   else if Z.eqb code (Zpos (XI (XO (XI (XO (XO (XO XH)))))))
                        then ((settle pm l t), x)
                        else ([], x)
            | _ :: _ -> ([], x)))))

(** val find_victim : nat -> nat -> nat -> nat -> nat -> nat option **)

let rec find_victim fuel n0 w tgt i =
  match fuel with
  | O -> None
  | S f ->
    if Nat.ltb i (maxst n0)
    then if Nat.eqb (victim n0 w i) tgt
         then Some i
         else find_victim f n0 w tgt (S i)
    else None

(** val release : st -> nat -> action list **)

let release s c =
  match (s.co c).loc with
  | LH a ->
    (match s.stk a with
     | [] -> []
     | f :: _ ->
       (match f with
        | FKer (c', k) ->
          (match k with
           | K0 -> if Nat.eqb c' c then (KStore a) :: [] else []
           | _ -> [])
        | _ -> []))
  | _ -> []

(** val has_frame : nat -> frame list -> bool **)

let has_frame c l =
  existsb (fun f ->
    match f with
    | FRun c' -> Nat.eqb c' c
    | FKer (c', _) -> Nat.eqb c' c
    | FPan c' -> Nat.eqb c' c) l

(** val bind_co : z -> nat -> aux -> aux option **)

let bind_co x c x0 =
  match lookup x x0.bindx with
  | Some c' -> if Nat.eqb c' c then Some x0 else None
  | None ->
    if (||) (bound_to c x0.bindx) (Z.eqb x Z0)
    then None
    else Some (x_bindx x0 ((x, c) :: x0.bindx))

(** val mpsc_block : nat **)

let mpsc_block =
  S (S (S (S (S (S (S (S (S (S (S (S (S (S (S (S (S (S (S (S (S (S (S (S (S
    (S (S (S (S (S (S (S (S (S (S (S (S (S (S (S (S (S (S (S (S (S (S (S (S
    (S (S (S (S (S (S (S (S (S (S (S (S (S (S (S
    O)))))))))))))))))))))))))))))))))))))))))))))))))))))))))))))))

(** val push_of : st -> aux -> nat -> ((nat * laction list) * aux) option **)

let push_of s x t =
  match x.pnd t with
  | PdNone ->
    (match s.stk t with
     | [] ->
       (match agent_pc s t with
        | Some p0 ->
          (match p0 with
           | SP (_, k) -> Some ((k, (b ((AStep t) :: []))), x)
           | _ -> None)
        | None -> None)
     | f :: _ ->
       (match f with
        | FRun _ ->
          (match agent_pc s t with
           | Some p0 ->
             (match p0 with
              | SP (_, k) -> Some ((k, (b ((AStep t) :: []))), x)
              | _ -> None)
           | None -> None)
        | FKer (_, k0) ->
          (match k0 with
           | KG k -> Some ((k, (b ((KStep t) :: []))), x)
           | _ -> None)
        | FPan _ -> None))
  | PdHeldK (c, k) ->
    Some ((k, (b ((Wake (c, (QG k))) :: []))), (set_pnd x t (PdOwe k)))
  | _ -> None

(** val plan_ev : lst -> aux -> n -> z list -> plan option **)

let plan_ev l x ct e =
  let s = l.base in
  let n0 = s.nw in
  (match e with
   | [] -> None
   | code :: l0 ->
     (match l0 with
      | [] -> None
      | za :: l1 ->
        (match l1 with
         | [] -> None
         | o :: l2 ->
           (match l2 with
            | [] -> None
            | v :: l3 ->
              (match l3 with
               | [] ->
                 let t = thr x n0 za in
                 (match code with
                  | Zpos p0 ->
                    (match p0 with
                     | XI p1 ->
                       (match p1 with
                        | XI p2 ->
                          (match p2 with
                           | XI p3 ->
                             (match p3 with
                              | XI p4 ->
                                (match p4 with
                                 | XI p5 ->
                                   (match p5 with
                                    | XH ->
                                      (match s.stk t with
                                       | [] -> None
                                       | f :: _ ->
                                         (match f with
                                          | FKer (c, k) ->
                                            (match k with
                                             | K0 ->
                                               guardb (is_pdnone (x.pnd t))
                                                 (p (b ((KStore t) :: []))
                                                   tt_
                                                   (x_slotb x ((o,
                                                     c) :: (unbind o x.slotb))))
                                             | _ -> None)
                                          | _ -> None))
                                    | _ -> None)
                                 | XO p5 ->
                                   (match p5 with
                                    | XH ->
                                      let w = Z.to_nat o in
                                      let tgt = Z.to_nat v in
                                      (match as_worker x n0 za w with
                                       | Some x1 ->
                                         (match l.wpc w with
                                          | PSteal i ->
                                            (match find_victim (S (S (S (S
                                                     O)))) n0 w tgt i with
                                             | Some i' ->
                                               let k = x.stn w in
                                               guardb (negb (x.cend w))
                                                 (p
                                                   (app
                                                     (repeat (LStEnd w)
                                                       (sub i' i))
                                                     (app
                                                       (repeat (LStGrab w) (S
                                                         k))
                                                       (app ((LStEnd
                                                         w) :: [])
                                                         (repeat (LPut w) k))))
                                                   (fun l' ->
                                                   match l'.wpc w with
                                                   | PRes r ->
                                                     (match r with
                                                      | RSt -> true
                                                      | _ -> false)
                                                   | _ -> false)
                                                   (x_stn x1 (upd x1.stn w O)))
                                             | None -> None)
                                          | _ -> None)
                                       | None -> None)
                                    | _ -> None)
                                 | XH ->
                                   let k = Nat.modulo (Z.to_nat v) n0 in
                                   let same = Nat.eqb (Nat.modulo s.rr n0) k
                                   in
                                   (match x.pnd t with
                                    | PdNone ->
                                      (match s.stk t with
                                       | [] -> None
                                       | f :: _ ->
                                         (match f with
                                          | FKer (c, k0) ->
                                            (match k0 with
                                             | K0 ->
                                               if same
                                               then p (b ((KFA t) :: [])) tt_
                                                      x
                                               else p (b ((KStore t) :: []))
                                                      tt_
                                                      (set_pnd x t (PdHeldK
                                                        (c, k)))
                                             | _ -> None)
                                          | _ -> None))
                                    | PdSpawn j ->
                                      p
                                        (b
                                          (if same
                                           then (ASpawn (t, j, None,
                                                  false)) :: ((AStep t) :: [])
                                           else (ASpawn (t, j, (Some
                                                  (Z.to_nat v)), false)) :: []))
                                        (fun l' ->
                                        match agent_pc l'.base t with
                                        | Some p5 ->
                                          (match p5 with
                                           | SP (c, k') ->
                                             (&&) (Nat.eqb c j) (Nat.eqb k' k)
                                           | _ -> false)
                                        | None -> false) (set_pnd x t PdNone)
                                    | PdHeld c ->
                                      p [] tt_ (set_pnd x t (PdHeldK (c, k)))
                                    | _ -> None))
                              | XO _ -> None
                              | XH ->
                                (match lookup o x.bindx with
                                 | Some j ->
                                   (match s.stk t with
                                    | [] -> None
                                    | f :: _ ->
                                      (match f with
                                       | FKer (c, k) ->
                                         (match k with
                                          | KD ->
                                            guardb (Nat.eqb c j)
                                              (p (b ((KDrop t) :: [])) tt_ x)
                                          | _ -> None)
                                       | _ -> None))
                                 | None -> None))
                           | XO p3 ->
                             (match p3 with
                              | XI p4 ->
                                (match p4 with
                                 | XO p5 ->
                                   (match p5 with
                                    | XH ->
                                      let w = Z.to_nat o in
                                      (match as_worker x n0 za w with
                                       | Some x1 ->
                                         guardb (negb (x.cend w))
                                           (p ((LEvDone w) :: []) tt_ x1)
                                       | None -> None)
                                    | _ -> None)
                                 | _ -> None)
                              | XO p4 ->
                                (match p4 with
                                 | XO p5 ->
                                   (match p5 with
                                    | XO p6 ->
                                      (match p6 with
                                       | XH ->
                                         if Nat.eqb (x.dfp t) (S O)
                                         then p [] tt_
                                                (x_dfp x
                                                  (upd x.dfp t (S (S O))))
                                         else p [] tt_ x
                                       | _ -> None)
                                    | _ -> None)
                                 | _ -> None)
                              | XH ->
                                if Nat.ltb t n0
                                then (match l.wpc t with
                                      | PRes _ ->
                                        (match s.hand t with
                                         | [] -> None
                                         | c :: _ ->
                                           (match bind_co o c x with
                                            | Some x1 ->
                                              p ((LResume t) :: [])
                                                (fun l' ->
                                                match top_run l'.base t with
                                                | Some c' -> Nat.eqb c' c
                                                | None -> false) x1
                                            | None -> None))
                                      | PCo _ ->
                                        (match s.stk t with
                                         | [] -> None
                                         | f :: _ ->
                                           (match f with
                                            | FKer (c, k) ->
                                              (match k with
                                               | KRun ->
                                                 (match lookup o x.bindx with
                                                  | Some c' ->
                                                    guardb (Nat.eqb c c')
                                                      (p
                                                        (b ((Resume (t,
                                                          c)) :: [])) tt_ x)
                                                  | None -> None)
                                               | _ -> None)
                                            | _ -> None))
                                      | _ -> None)
                                else (match s.stk t with
                                      | [] ->
                                        (match lookup o x.bindx with
                                         | Some c ->
                                           p
                                             (b
                                               (app (release s c) ((TakeSlot
                                                 (t, c)) :: ((Resume (t,
                                                 c)) :: [])))) tt_ x
                                         | None -> None)
                                      | f :: _ ->
                                        (match f with
                                         | FKer (c, k) ->
                                           (match k with
                                            | KRun ->
                                              (match lookup o x.bindx with
                                               | Some c' ->
                                                 guardb (Nat.eqb c c')
                                                   (p
                                                     (b ((Resume (t,
                                                       c)) :: [])) tt_ x)
                                               | None -> None)
                                            | _ -> None)
                                         | _ -> None)))
                           | XH -> None)
                        | XO p2 ->
                          (match p2 with
                           | XI p3 ->
                             (match p3 with
                              | XI p4 ->
                                (match p4 with
                                 | XI p5 ->
                                   (match p5 with
                                    | XH ->
                                      if (&&)
                                           ((&&)
                                             ((&&) (Nat.ltb t n0)
                                               (negb (x.cend t)))
                                             (is_nil (s.hand t)))
                                           (is_nil (s.gq t))
                                      then (match l.wpc t with
                                            | PColl _ ->
                                              p ((LBulkEnd t) :: []) tt_
                                                (x_cend x (upd x.cend t true))
                                            | _ -> p [] tt_ x)
                                      else p [] tt_ x
                                    | _ -> None)
                                 | XO p5 ->
                                   (match p5 with
                                    | XH ->
                                      let k = Z.to_nat o in
                                      (match x.pnd t with
                                       | PdNone ->
                                         (match s.stk t with
                                          | [] ->
                                            (match agent_pc s t with
                                             | Some p6 ->
                                               (match p6 with
                                                | SW k' ->
                                                  guardb (Nat.eqb k' k)
                                                    (p (b ((AStep t) :: []))
                                                      tt_ x)
                                                | _ -> None)
                                             | None -> None)
                                          | f :: _ ->
                                            (match f with
                                             | FRun _ ->
                                               (match agent_pc s t with
                                                | Some p6 ->
                                                  (match p6 with
                                                   | SW k' ->
                                                     guardb (Nat.eqb k' k)
                                                       (p
                                                         (b ((AStep t) :: []))
                                                         tt_ x)
                                                   | _ -> None)
                                                | None -> None)
                                             | FKer (_, k0) ->
                                               (match k0 with
                                                | K0 ->
                                                  p ((LSpurWake k) :: []) tt_
                                                    x
                                                | KW k' ->
                                                  guardb (Nat.eqb k' k)
                                                    (p (b ((KStep t) :: []))
                                                      tt_ x)
                                                | _ -> None)
                                             | FPan _ -> None))
                                       | PdOwe k' ->
                                         guardb (Nat.eqb k' k)
                                           (p ((LAnonWake k) :: []) tt_
                                             (set_pnd x t PdNone))
                                       | _ -> None)
                                    | _ -> None)
                                 | XH -> None)
                              | XO p4 ->
                                (match p4 with
                                 | XO p5 ->
                                   (match p5 with
                                    | XO p6 ->
                                      (match p6 with
                                       | XH ->
                                         if Z.eqb v Z0
                                         then p [] tt_ x
                                         else let ring =
                                                match l.wpc t with
                                                | PWait -> None
                                                | PSleep -> None
                                                | PEvs _ -> None
                                                | PIo _ -> None
                                                | PColl _ -> None
                                                | PPut _ -> None
                                                | PRun -> None
                                                | PRes _ -> None
                                                | PCo _ -> None
                                                | PHas -> None
                                                | PSteal i ->
                                                  Some
                                                    (app
                                                      (repeat (LStEnd t)
                                                        (sub (maxst n0) i))
                                                      ((LStOut t) :: []))
                                                | PStPut -> None
                                                | PTim -> Some []
                                              in
                                              (match lookup o x.slotb with
                                               | Some c ->
                                                 (match ring with
                                                  | Some r ->
                                                    guardb
                                                      ((&&)
                                                        ((&&) (Nat.ltb t n0)
                                                          (negb (x.cend t)))
                                                        (Nat.eqb (x.stn t) O))
                                                      (p
                                                        (app r
                                                          (app
                                                            (map (fun x0 ->
                                                              LBase x0)
                                                              (release s c))
                                                            ((LTmTake (t,
                                                            c)) :: [])))
                                                        (fun l' ->
                                                        match l'.wpc t with
                                                        | PRes r0 ->
                                                          (match r0 with
                                                           | RTim -> true
                                                           | _ -> false)
                                                        | _ -> false)
                                                        (x_slotb x
                                                          (unbind o x.slotb)))
                                                  | None -> None)
                                               | None -> None)
                                       | _ -> None)
                                    | _ -> None)
                                 | _ -> None)
                              | XH ->
                                (match lookup o x.bindx with
                                 | Some j ->
                                   (match s.stk t with
                                    | [] -> None
                                    | f :: rest ->
                                      (match f with
                                       | FKer (c, k) ->
                                         guardb
                                           ((&&) (Nat.eqb c j)
                                             (is_pdnone (x.pnd t)))
                                           (let x1 =
                                              match (s.co j).loc with
                                              | LDead ->
                                                if has_frame j rest
                                                then x
                                                else x_bindx x
                                                       (unbind o x.bindx)
                                              | _ -> x
                                            in
                                            match k with
                                            | K0 ->
                                              p
                                                (b ((KStore t) :: ((KSkip
                                                  t) :: ((KSubscribed
                                                  t) :: [])))) tt_ x1
                                            | KRe ->
                                              p
                                                (b ((KSkip
                                                  t) :: ((KSubscribed
                                                  t) :: []))) tt_ x1
                                            | KEnd ->
                                              p (b ((KSubscribed t) :: []))
                                                tt_ x1
                                            | _ -> None)
                                       | _ -> None))
                                 | None -> None))
                           | XO p3 ->
                             (match p3 with
                              | XI p4 ->
                                (match p4 with
                                 | XO p5 ->
                                   (match p5 with
                                    | XH ->
                                      let w = Z.to_nat o in
                                      let nmin =
                                        if l.evfd w then Zpos XH else Z0
                                      in
                                      let io = Z.ltb nmin v in
                                      (match as_worker x n0 za w with
                                       | Some x1 ->
                                         guardb
                                           ((&&) (Z.leb nmin v)
                                             (negb (x.cend w)))
                                           (match l.wpc w with
                                            | PWait ->
                                              p ((LPoll (w, io)) :: [])
                                                (fun l' ->
                                                match l'.wpc w with
                                                | PEvs _ -> true
                                                | _ -> false) x1
                                            | PSleep ->
                                              if Z.eqb v Z0
                                              then (match l.dl w with
                                                    | Some d ->
                                                      p ((LTick
                                                        (N.sub d l.now)) :: ((LTimeout
                                                        w) :: [])) tt_ x1
                                                    | None -> None)
                                              else p ((LWake (w, io)) :: [])
                                                     tt_ x1
                                            | _ -> None)
                                       | None -> None)
                                    | _ -> None)
                                 | _ -> None)
                              | XO p4 ->
                                (match p4 with
                                 | XI p5 ->
                                   (match p5 with
                                    | XH ->
                                      let w = Z.to_nat o in
                                      (match as_worker x n0 za w with
                                       | Some x1 ->
                                         (match l.wpc w with
                                          | PColl _ ->
                                            let early =
                                              if Nat.ltb (length (s.gq w))
                                                   (Z.to_nat v)
                                              then (match x1.dq w with
                                                    | Some t' ->
                                                      if Nat.eqb (x1.dfp t')
                                                           (S (S O))
                                                      then (match push_of s
                                                                    x1 t' with
                                                            | Some p6 ->
                                                              let (p7, x2) =
                                                                p6
                                                              in
                                                              let (_, a) = p7
                                                              in
                                                              Some (a,
                                                              (x_dq
                                                                (x_dfp x2
                                                                  (upd x2.dfp
                                                                    t' O))
                                                                (upd x2.dq w
                                                                  None)))
                                                            | None -> None)
                                                      else None
                                                    | None -> None)
                                              else Some ([], x1)
                                            in
                                            (match early with
                                             | Some p6 ->
                                               let (a, x2) = p6 in
                                               guardb
                                                 ((&&)
                                                   ((&&) (negb (x.cend w))
                                                     (is_nil (s.hand w)))
                                                   (Z.ltb Z0 v))
                                                 (p
                                                   (app a
                                                     (app
                                                       (repeat (LBulkGrab w)
                                                         (Z.to_nat v))
                                                       ((LBulkEnd w) :: [])))
                                                   (fun l' ->
                                                   match l'.wpc w with
                                                   | PPut _ -> true
                                                   | _ -> false) x2)
                                             | None -> None)
                                          | _ -> None)
                                       | None -> None)
                                    | _ -> None)
                                 | XO p5 ->
                                   (match p5 with
                                    | XO p6 ->
                                      (match p6 with
                                       | XH ->
                                         if Z.eqb v Z0
                                         then p [] tt_ x
                                         else (match lookup o x.slotb with
                                               | Some c ->
                                                 guardb
                                                   ((&&)
                                                     (is_pdnone (x.pnd t))
                                                     (memb c s.slots))
                                                   (p [] tt_
                                                     (set_pnd
                                                       (x_slotb x
                                                         (unbind o x.slotb))
                                                       t (PdHeld c)))
                                               | None -> None)
                                       | _ -> None)
                                    | _ -> None)
                                 | XH ->
                                   (match top_run s t with
                                    | Some c ->
                                      (match (s.co c).upc with
                                       | Idle ->
                                         p
                                           (b ((AFinish (t, Z0)) :: ((AStep
                                             t) :: ((AStep t) :: ((AStep
                                             t) :: []))))) (fun l' ->
                                           match (l'.base.co c).upc with
                                           | CRet -> true
                                           | _ -> false) x
                                       | _ -> None)
                                    | None -> None))
                              | XH -> None)
                           | XH -> None)
                        | XH -> None)
                     | XO p1 ->
                       (match p1 with
                        | XI p2 ->
                          (match p2 with
                           | XI p3 ->
                             (match p3 with
                              | XI p4 ->
                                (match p4 with
                                 | XI p5 ->
                                   (match p5 with
                                    | XH ->
                                      guardb (Nat.ltb t n0)
                                        (match l.wpc t with
                                         | PIo _ -> p ((LPut t) :: []) tt_ x
                                         | PPut _ -> p ((LPut t) :: []) tt_ x
                                         | PCo _ ->
                                           (match x.pnd t with
                                            | PdNone ->
                                              (match s.stk t with
                                               | [] -> None
                                               | f :: _ ->
                                                 (match f with
                                                  | FKer (_, k) ->
                                                    (match k with
                                                     | K0 ->
                                                       p
                                                         (b ((KLocal
                                                           t) :: [])) tt_ x
                                                     | _ -> None)
                                                  | _ -> None))
                                            | PdHeld c ->
                                              p
                                                (b ((Wake (c, (QL t))) :: []))
                                                tt_ (set_pnd x t PdNone)
                                            | _ -> None)
                                         | PSteal _ ->
                                           p [] tt_
                                             (x_stn x
                                               (upd x.stn t (S (x.stn t))))
                                         | _ -> None)
                                    | _ -> None)
                                 | XO p5 ->
                                   (match p5 with
                                    | XH ->
                                      let w = Z.to_nat o in
                                      (match as_worker x n0 za w with
                                       | Some x1 ->
                                         (match l.wpc w with
                                          | PRun ->
                                            guardb (negb (x.cend w))
                                              (p ((LPop w) :: []) (fun l' ->
                                                match l'.wpc w with
                                                | PColl r ->
                                                  (match r with
                                                   | FromRun -> Z.eqb v Z0
                                                   | _ -> false)
                                                | PRes r ->
                                                  (match r with
                                                   | RRun -> Z.eqb v (Zpos XH)
                                                   | _ -> false)
                                                | _ -> false) x1)
                                          | _ -> None)
                                       | None -> None)
                                    | _ -> None)
                                 | XH -> None)
                              | _ -> None)
                           | XO p3 ->
                             (match p3 with
                              | XI p4 ->
                                (match p4 with
                                 | XO p5 ->
                                   (match p5 with
                                    | XH ->
                                      let w = Z.to_nat o in
                                      (match as_worker x n0 za w with
                                       | Some x1 ->
                                         guardb (negb (x.cend w))
                                           (p ((LEvRead w) :: []) tt_ x1)
                                       | None -> None)
                                    | _ -> None)
                                 | _ -> None)
                              | XO p4 ->
                                (match p4 with
                                 | XI p5 ->
                                   (match p5 with
                                    | XH ->
                                      let w = Z.to_nat o in
                                      (match as_worker x n0 za w with
                                       | Some x1 ->
                                         guardb (x.cend w)
                                           (p [] tt_
                                             (x_cend x1 (upd x1.cend w false)))
                                       | None -> None)
                                    | _ -> None)
                                 | XO p5 ->
                                   (match p5 with
                                    | XO p6 ->
                                      (match p6 with
                                       | XH ->
                                         if Z.eqb v Z0
                                         then p [] tt_ x
                                         else (match lookup o x.slotb with
                                               | Some c ->
                                                 (match l.wpc t with
                                                  | PEvs _ ->
                                                    guardb (Nat.ltb t n0)
                                                      (p
                                                        (app
                                                          (map (fun x0 ->
                                                            LBase x0)
                                                            (release s c))
                                                          ((LIoTake (t,
                                                          c)) :: [])) tt_
                                                        (x_slotb x
                                                          (unbind o x.slotb)))
                                                  | _ -> None)
                                               | None -> None)
                                       | _ -> None)
                                    | _ -> None)
                                 | XH -> None)
                              | XH -> None)
                           | XH -> None)
                        | XO p2 ->
                          (match p2 with
                           | XI p3 ->
                             (match p3 with
                              | XI p4 ->
                                (match p4 with
                                 | XI p5 ->
                                   (match p5 with
                                    | XH ->
                                      if Z.eqb v Z0
                                      then p [] tt_ x
                                      else (match push_of s x t with
                                            | Some p6 ->
                                              let (p7, x1) = p6 in
                                              let (k, a) = p7 in
                                              if Nat.eqb (S (x.gcl k))
                                                   mpsc_block
                                              then p [] tt_
                                                     (x_dq
                                                       (x_dfp
                                                         (x_gcl x
                                                           (upd x.gcl k O))
                                                         (upd x.dfp t (S O)))
                                                       (upd x.dq k (Some t)))
                                              else p a tt_
                                                     (x_gcl x1
                                                       (upd x1.gcl k (S
                                                         (x1.gcl k))))
                                            | None -> p [] tt_ x)
                                    | _ -> None)
                                 | XO p5 ->
                                   (match p5 with
                                    | XH ->
                                      let w = Z.to_nat o in
                                      (match as_worker x n0 za w with
                                       | Some x1 ->
                                         let ring =
                                           match l.wpc w with
                                           | PWait -> None
                                           | PSleep -> None
                                           | PEvs _ -> None
                                           | PIo _ -> None
                                           | PColl _ -> None
                                           | PPut _ -> None
                                           | PRun -> None
                                           | PRes _ -> None
                                           | PCo _ -> None
                                           | PHas -> None
                                           | PSteal i ->
                                             Some
                                               (app
                                                 (repeat (LStEnd w)
                                                   (sub (maxst n0) i))
                                                 ((LStOut w) :: []))
                                           | PStPut -> None
                                           | PTim -> Some []
                                         in
                                         let nx =
                                           if Z.eqb v Z0
                                           then Some N0
                                           else dec_tmo v
                                         in
                                         let expect =
                                           if Z.eqb v umax
                                           then ct
                                           else Z.to_N v
                                         in
                                         (match ring with
                                          | Some r ->
                                            guardb
                                              ((&&) (negb (x.cend w))
                                                (Nat.eqb (x.stn w) O))
                                              (p
                                                (app r ((LTmDone (w,
                                                  nx)) :: [])) (fun l' ->
                                                optN_eqb (l'.tmo w) (Some
                                                  expect)) x1)
                                          | None -> None)
                                       | None -> None)
                                    | _ -> None)
                                 | XH -> None)
                              | XO p4 ->
                                (match p4 with
                                 | XO p5 ->
                                   (match p5 with
                                    | XO p6 ->
                                      (match p6 with
                                       | XH ->
                                         if Nat.eqb (x.dfp t) O
                                         then p [] tt_ x
                                         else (match push_of s x t with
                                               | Some p7 ->
                                                 let (p8, x1) = p7 in
                                                 let (k, a) = p8 in
                                                 p a tt_
                                                   (x_dq
                                                     (x_dfp x1
                                                       (upd x1.dfp t O))
                                                     (upd x1.dq k None))
                                               | None -> None)
                                       | _ -> None)
                                    | _ -> None)
                                 | _ -> None)
                              | XH ->
                                (match lookup o x.bindx with
                                 | Some j ->
                                   (match top_run s t with
                                    | Some c ->
                                      guardb (Nat.eqb c j)
                                        (match (s.co j).upc with
                                         | CRet ->
                                           p [] tt_
                                             (x_dfr x (upd x.dfr t true))
                                         | _ -> p (b ((AYield t) :: [])) tt_ x)
                                    | None -> None)
                                 | None -> None))
                           | XO p3 ->
                             (match p3 with
                              | XI p4 ->
                                (match p4 with
                                 | XO p5 ->
                                   (match p5 with
                                    | XH ->
                                      let w = Z.to_nat o in
                                      (match as_worker x n0 za w with
                                       | Some x1 ->
                                         (match l.wpc w with
                                          | PWait ->
                                            guardb
                                              ((&&)
                                                (optN_eqb (l.tmo w)
                                                  (dec_tmo v))
                                                (negb (x.cend w)))
                                              (if is_zero (l.tmo w)
                                               then p [] tt_ x1
                                               else p ((LPoll (w,
                                                      false)) :: [])
                                                      (fun l' ->
                                                      match l'.wpc w with
                                                      | PSleep -> true
                                                      | _ -> false) x1)
                                          | _ -> None)
                                       | None -> None)
                                    | _ -> None)
                                 | _ -> None)
                              | XO p4 ->
                                (match p4 with
                                 | XI p5 ->
                                   (match p5 with
                                    | XH ->
                                      let w = Z.to_nat o in
                                      (match as_worker x n0 za w with
                                       | Some x1 ->
                                         (match l.wpc w with
                                          | PColl _ ->
                                            guardb
                                              ((&&) (negb (x.cend w))
                                                (is_nil (s.hand w)))
                                              (p [] tt_ x1)
                                          | _ -> None)
                                       | None -> None)
                                    | _ -> None)
                                 | XO p5 ->
                                   (match p5 with
                                    | XO p6 ->
                                      (match p6 with
                                       | XH ->
                                         if Z.eqb v Z0
                                         then p [] tt_ x
                                         else (match s.stk t with
                                               | [] -> None
                                               | f :: _ ->
                                                 (match f with
                                                  | FKer (c, k) ->
                                                    (match k with
                                                     | KRe ->
                                                       (match lookup o x.slotb with
                                                        | Some c' ->
                                                          guardb
                                                            (Nat.eqb c c')
                                                            (p
                                                              (b ((KSelfTake
                                                                t) :: []))
                                                              tt_
                                                              (x_slotb x
                                                                (unbind o
                                                                  x.slotb)))
                                                        | None -> None)
                                                     | _ -> None)
                                                  | _ -> None))
                                       | _ -> None)
                                    | _ -> None)
                                 | XH ->
                                   (match top_run s t with
                                    | Some _ -> p [] tt_ x
                                    | None -> None))
                              | XH -> None)
                           | XH -> None)
                        | XH ->
                          guardb
                            ((&&) (is_pdnone (x.pnd t))
                              (s.co (Z.to_nat o)).spawned)
                            (match agent_pc s t with
                             | Some p2 ->
                               (match p2 with
                                | Idle -> p [] tt_ x
                                | _ -> None)
                             | None -> None))
                     | XH ->
                       let j = Z.to_nat o in
                       guardb
                         ((&&) (is_pdnone (x.pnd t)) (negb (s.co j).spawned))
                         (if Z.testbit v (Zpos (XI XH))
                          then p
                                 (b ((ASpawn (t, j, (Some
                                   (Z.to_nat
                                     (Z.shiftr v (Zpos (XO (XO (XO XH))))))),
                                   false)) :: [])) tt_ x
                          else p [] tt_ (set_pnd x t (PdSpawn j))))
                  | _ -> None)
               | _ :: _ -> None)))))

(** val accept_ev : ast -> z list -> ast option **)

let accept_ev a e =
  match a.acfg with
  | Some ct ->
    let pm = code_params ct in
    let (pre0, x1) = pre_ev pm a.al a.ax e in
    (match lruns pm a.al pre0 with
     | Some l1 ->
       (match plan_ev l1 x1 ct e with
        | Some p0 ->
          (match lruns pm l1 p0.acts with
           | Some l2 ->
             if p0.post l2
             then Some { al = l2; acfg = (Some ct); ax = p0.nxt }
             else None
           | None -> None)
        | None -> None)
     | None -> None)
  | None ->
    (match e with
     | [] -> None
     | z0 :: l ->
       (match z0 with
        | Z0 ->
          (match l with
           | [] -> None
           | _ :: l0 ->
             (match l0 with
              | [] -> None
              | o :: l1 ->
                (match l1 with
                 | [] -> None
                 | v :: l2 ->
                   (match l2 with
                    | [] ->
                      Some { al = (linit (Z.to_nat o)); acfg = (Some
                        (Z.to_N v)); ax = a.ax }
                    | _ :: _ -> None))))
        | _ -> None))

(** val final_ok : ast -> bool **)

let final_ok a =
  match a.acfg with
  | Some _ -> true
  | None -> false

(** val m_init0 : ast **)

let m_init0 =
  m_init

(** val m_accept : ast -> z list -> ast option **)

let m_accept =
  accept_ev

(** val m_final : ast -> bool **)

let m_final =
  final_ok
