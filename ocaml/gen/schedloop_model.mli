
val negb : bool -> bool

type nat =
| O
| S of nat

val option_map : ('a1 -> 'a2) -> 'a1 option -> 'a2 option

val fst : ('a1 * 'a2) -> 'a1

val snd : ('a1 * 'a2) -> 'a2

val length : 'a1 list -> nat

val app : 'a1 list -> 'a1 list -> 'a1 list

type comparison =
| Eq
| Lt
| Gt

val compOpp : comparison -> comparison

val add : nat -> nat -> nat

val sub : nat -> nat -> nat

module Nat :
 sig
  val pred : nat -> nat

  val sub : nat -> nat -> nat

  val eqb : nat -> nat -> bool

  val leb : nat -> nat -> bool

  val ltb : nat -> nat -> bool

  val min : nat -> nat -> nat

  val divmod : nat -> nat -> nat -> nat -> nat * nat

  val modulo : nat -> nat -> nat

  val eq_dec : nat -> nat -> bool
 end

val hd_error : 'a1 list -> 'a1 option

val remove : ('a1 -> 'a1 -> bool) -> 'a1 -> 'a1 list -> 'a1 list

val map : ('a1 -> 'a2) -> 'a1 list -> 'a2 list

val existsb : ('a1 -> bool) -> 'a1 list -> bool

val repeat : 'a1 -> nat -> 'a1 list

type positive =
| XI of positive
| XO of positive
| XH

type n =
| N0
| Npos of positive

type z =
| Z0
| Zpos of positive
| Zneg of positive

module Pos :
 sig
  type mask =
  | IsNul
  | IsPos of positive
  | IsNeg
 end

module Coq_Pos :
 sig
  val succ : positive -> positive

  val add : positive -> positive -> positive

  val add_carry : positive -> positive -> positive

  val pred_double : positive -> positive

  val pred_N : positive -> n

  type mask = Pos.mask =
  | IsNul
  | IsPos of positive
  | IsNeg

  val succ_double_mask : mask -> mask

  val double_mask : mask -> mask

  val double_pred_mask : positive -> mask

  val sub_mask : positive -> positive -> mask

  val sub_mask_carry : positive -> positive -> mask

  val mul : positive -> positive -> positive

  val iter : ('a1 -> 'a1) -> 'a1 -> positive -> 'a1

  val div2 : positive -> positive

  val div2_up : positive -> positive

  val compare_cont : comparison -> positive -> positive -> comparison

  val compare : positive -> positive -> comparison

  val eqb : positive -> positive -> bool

  val testbit : positive -> n -> bool

  val iter_op : ('a1 -> 'a1 -> 'a1) -> positive -> 'a1 -> 'a1

  val to_nat : positive -> nat
 end

module N :
 sig
  val succ_double : n -> n

  val double : n -> n

  val add : n -> n -> n

  val sub : n -> n -> n

  val mul : n -> n -> n

  val compare : n -> n -> comparison

  val eqb : n -> n -> bool

  val leb : n -> n -> bool

  val pos_div_eucl : positive -> n -> n * n

  val div_eucl : n -> n -> n * n

  val div : n -> n -> n

  val testbit : n -> n -> bool
 end

module Z :
 sig
  val opp : z -> z

  val mul : z -> z -> z

  val compare : z -> z -> comparison

  val leb : z -> z -> bool

  val ltb : z -> z -> bool

  val eqb : z -> z -> bool

  val to_nat : z -> nat

  val to_N : z -> n

  val odd : z -> bool

  val div2 : z -> z

  val testbit : z -> z -> bool

  val shiftl : z -> z -> z

  val shiftr : z -> z -> z
 end

type ag =
| AT of nat
| AC of nat

type res =
| RVal of z
| RPan of z
| RCancel

type jmode =
| MJoin
| MWait

type gstate =
| GInit
| GLive
| GFin

type place =
| LNone
| LG of nat
| LL of nat
| LH of nat
| LRun of nat
| LSlot
| LDead

type qid =
| QG of nat
| QL of nat

type jpc =
| JW0 of jmode
| JW1 of jmode
| JW2 of jmode * nat
| JW3 of jmode * nat
| JW3p of jmode * nat
| JW4 of jmode * nat
| JT1
| JT2

type pc =
| Idle
| SG of nat
| SP of nat * nat
| SW of nat
| SL of nat
| InJ of nat
| ID0 of nat
| CF of z
| CT1
| CT2
| CT3 of nat
| CRet
| PP0 of z
| PT1
| PT2
| PT3 of nat
| PD

type kpc =
| K0
| KG of nat
| KW of nat
| KRe
| KRun
| KD
| KEnd

type frame =
| FRun of nat
| FKer of nat * kpc
| FPan of nat

type cor = { spawned : bool; gst : gstate; upc : pc; cancelled : bool;
             jstate : bool; jwake : nat option; pkt : z option;
             pan : z option; jcall : (ag * jpc) option; jdone : bool;
             loc : place; bodycnt : nat; outcome : res option; ptaken : 
             bool; jret : res option }

type st = { co : (nat -> cor); gq : (nat -> nat list);
            lq : (nat -> nat list); hand : (nat -> nat list);
            stk : (nat -> frame list); slots : nat list; dead : nat list;
            tpc : (nat -> pc); tok : (nat -> bool); bjoin : (nat -> nat);
            nextb : nat; punp : nat list; rr : nat; nw : nat }

val upd : (nat -> 'a1) -> nat -> 'a1 -> nat -> 'a1

val ag_eqb : ag -> ag -> bool

val cor0 : cor

val cor_new : place -> cor

val mkc :
  bool -> gstate -> pc -> bool -> bool -> nat option -> z option -> z option
  -> (ag * jpc) option -> bool -> place -> nat -> res option -> bool -> res
  option -> cor

val c_upc : cor -> pc -> cor

val c_loc : cor -> place -> cor

val c_canc : cor -> bool -> cor

val c_jstate : cor -> bool -> cor

val c_jwake : cor -> nat option -> cor

val c_pkt : cor -> z option -> cor

val c_pan : cor -> z option -> cor

val c_jcall : cor -> (ag * jpc) option -> cor

val c_jfin : cor -> res -> cor

val c_ptaken : cor -> cor

val c_resume : cor -> place -> cor

val c_end : cor -> gstate -> pc -> res -> cor

val c_gst : cor -> gstate -> cor

val mk :
  (nat -> cor) -> (nat -> nat list) -> (nat -> nat list) -> (nat -> nat list)
  -> (nat -> frame list) -> nat list -> nat list -> (nat -> pc) -> (nat ->
  bool) -> (nat -> nat) -> nat -> nat list -> nat -> nat -> st

val s_co : st -> (nat -> cor) -> st

val s_gq : st -> (nat -> nat list) -> st

val s_lq : st -> (nat -> nat list) -> st

val s_hand : st -> (nat -> nat list) -> st

val s_stk : st -> (nat -> frame list) -> st

val s_slots : st -> nat list -> st

val s_dead : st -> nat list -> st

val s_tpc : st -> (nat -> pc) -> st

val s_tok : st -> (nat -> bool) -> st

val s_newb : st -> nat -> st

val s_punp : st -> nat list -> st

val s_rr : st -> nat -> st

val rm : nat -> nat list -> nat list

val memb : nat -> nat list -> bool

val rm1 : nat -> nat list -> nat list

val on_co : st -> nat -> (cor -> cor) -> st

val getq : st -> qid -> nat list

val setq : st -> qid -> nat list -> st

val qloc : qid -> place

val pushq : st -> qid -> nat -> st

val add_hand : st -> nat -> nat -> st

val del_hand : st -> nat -> nat -> st

val set_stk : st -> nat -> frame list -> st

val cur : st -> nat -> ag option

val apc : st -> ag -> pc

val set_apc : st -> ag -> pc -> st

val live_ag : st -> ag -> bool

val base_idle : st -> nat -> bool

type action =
| ASpawn of nat * nat * nat option * bool
| AJoin of nat * nat * jmode
| AIsDone of nat * nat
| ACancel of nat * nat
| AYield of nat
| AFinish of nat * z
| APanic of nat * z option
| AStep of nat
| AFire of nat
| KLocal of nat
| KFA of nat
| KStep of nat
| KStore of nat
| KSelfTake of nat
| KSkip of nat
| KDrop of nat
| KSubscribed of nat
| Grab of nat * qid
| Put of nat
| TakeSlot of nat * nat
| Resume of nat * nat
| Wake of nat * qid
| DoUnpark of nat * qid

val call_of : st -> ag -> nat -> jpc option

val set_call : st -> ag -> nat -> jpc -> st

val end_call : st -> nat -> st

val park_ret : st -> nat -> st

val pc_idle : pc -> bool

val take_wake : st -> nat -> (nat -> pc) -> pc -> st

val step : st -> action -> st option

val init : nat -> st

type params = { push_first : bool; work_steal : bool; cfg_tmo : n;
                budgeted : bool; budget : nat; interval : nat }

type ret =
| RRun
| RSt
| RTim
| RIo of bool

type cfrom =
| FromEv
| FromRun
| FromBud

type lpc =
| PWait
| PSleep
| PEvs of bool
| PIo of bool
| PColl of cfrom
| PPut of cfrom
| PRun
| PRes of ret
| PCo of ret
| PHas
| PSteal of nat
| PStPut
| PTim

type lst = { base : st; wpc : (nat -> lpc); evfd : (nat -> bool);
             tmo : (nat -> n option); dl : (nat -> n option);
             slept : (nat -> n); now : n; owed : (nat -> nat);
             anon : (nat -> nat); pre : (nat -> nat); npop : (nat -> nat);
             ncoll : (nat -> nat); nsel : (nat -> nat); coll0 : (nat -> nat);
             ngrab : (nat -> nat); ntake : (nat -> nat); bud : (nat -> nat);
             since : (nat -> nat) }

val mkl :
  st -> (nat -> lpc) -> (nat -> bool) -> (nat -> n option) -> (nat -> n
  option) -> (nat -> n) -> n -> (nat -> nat) -> (nat -> nat) -> (nat -> nat)
  -> (nat -> nat) -> (nat -> nat) -> (nat -> nat) -> (nat -> nat) -> (nat ->
  nat) -> (nat -> nat) -> (nat -> nat) -> (nat -> nat) -> lst

val l_base : lst -> st -> lst

val l_wpc : lst -> (nat -> lpc) -> lst

val l_evfd : lst -> (nat -> bool) -> lst

val l_tmo : lst -> (nat -> n option) -> lst

val l_dl : lst -> (nat -> n option) -> lst

val l_slept : lst -> (nat -> n) -> lst

val l_now : lst -> n -> lst

val l_owed : lst -> (nat -> nat) -> lst

val l_anon : lst -> (nat -> nat) -> lst

val l_pre : lst -> (nat -> nat) -> lst

val l_npop : lst -> (nat -> nat) -> lst

val l_ncoll : lst -> (nat -> nat) -> lst

val l_nsel : lst -> (nat -> nat) -> lst

val l_coll0 : lst -> (nat -> nat) -> lst

val l_ngrab : lst -> (nat -> nat) -> lst

val l_ntake : lst -> (nat -> nat) -> lst

val l_bud : lst -> (nat -> nat) -> lst

val l_since : lst -> (nat -> nat) -> lst

val set_pc : lst -> nat -> lpc -> lst

val set_evfd : lst -> nat -> bool -> lst

val inc : (nat -> nat) -> nat -> nat -> nat

val dec : (nat -> nat) -> nat -> nat -> nat

val grabbed : lst -> nat option -> lst

val taken : lst -> nat option -> lst

val is_nil : 'a1 list -> bool

val is_zero : n option -> bool

val is_co : lpc -> bool

val rnd : n -> n

val maxst : nat -> nat

val victim : nat -> nat -> nat -> nat

val push_target : st -> action -> qid option

val is_anon : action -> bool

val wake_target : st -> action -> nat option

val fetch_target : st -> action -> nat option

val thread_ok : lst -> nat -> bool

val base_ok : params -> lst -> action -> bool

type laction =
| LBase of action
| LPoll of nat * bool
| LWake of nat * bool
| LTimeout of nat
| LIoTake of nat * nat
| LEvRead of nat
| LEvDone of nat
| LBulkGrab of nat
| LBulkEnd of nat
| LPut of nat
| LPop of nat
| LResume of nat
| LCoRet of nat
| LHas of nat
| LStGrab of nat
| LStEnd of nat
| LStOut of nat
| LTmTake of nat * nat
| LTmDone of nat * n option
| LAnonWake of nat
| LAnonPre of nat
| LSpurWake of nat
| LTick of n

val guard : params -> lst -> laction -> bool

val proj : lst -> laction -> action option

val ctl_base : params -> lst -> action -> lst -> lst

val ctl : params -> lst -> laction -> st -> lst

val lstep : params -> lst -> laction -> lst option

val linit : nat -> lst

val lruns : params -> lst -> laction list -> lst option

val code_params : n -> params

type pend =
| PdNone
| PdSpawn of nat
| PdHeld of nat
| PdHeldK of nat * nat
| PdOwe of nat

type aux = { wact : (z * nat) list; bindx : (z * nat) list;
             slotb : (z * nat) list; pnd : (nat -> pend);
             dfr : (nat -> bool); stn : (nat -> nat); cend : (nat -> bool);
             gcl : (nat -> nat); dfp : (nat -> nat); dq : (nat -> nat option) }

val aux0 : aux

val x_wact : aux -> (z * nat) list -> aux

val x_bindx : aux -> (z * nat) list -> aux

val x_slotb : aux -> (z * nat) list -> aux

val x_pnd : aux -> (nat -> pend) -> aux

val x_dfr : aux -> (nat -> bool) -> aux

val x_stn : aux -> (nat -> nat) -> aux

val x_cend : aux -> (nat -> bool) -> aux

val x_gcl : aux -> (nat -> nat) -> aux

val x_dfp : aux -> (nat -> nat) -> aux

val x_dq : aux -> (nat -> nat option) -> aux

val set_pnd : aux -> nat -> pend -> aux

type ast = { al : lst; acfg : n option; ax : aux }

val m_init : ast

val lookup : z -> (z * nat) list -> nat option

val bound_to : nat -> (z * nat) list -> bool

val unbind : z -> (z * nat) list -> (z * nat) list

val guardb : bool -> 'a1 option -> 'a1 option

val umax : z

val dec_tmo : z -> n option

val optN_eqb : n option -> n option -> bool

val is_pdnone : pend -> bool

val thr : aux -> nat -> z -> nat

val as_worker : aux -> nat -> z -> nat -> aux option

type plan = { acts : laction list; post : (lst -> bool); nxt : aux }

val p : laction list -> (lst -> bool) -> aux -> plan option

val tt_ : lst -> bool

val b : action list -> laction list

val top_run : st -> nat -> nat option

val agent_pc : st -> nat -> pc option

val try_act : params -> lst -> laction -> laction list * lst

val settle : params -> lst -> nat -> laction list

val is_loop_code : z -> bool

val pre_ev : params -> lst -> aux -> z list -> laction list * aux

val find_victim : nat -> nat -> nat -> nat -> nat -> nat option

val release : st -> nat -> action list

val has_frame : nat -> frame list -> bool

val bind_co : z -> nat -> aux -> aux option

val mpsc_block : nat

val push_of : st -> aux -> nat -> ((nat * laction list) * aux) option

val plan_ev : lst -> aux -> n -> z list -> plan option

val accept_ev : ast -> z list -> ast option

val final_ok : ast -> bool

val m_init0 : ast

val m_accept : ast -> z list -> ast option

val m_final : ast -> bool
