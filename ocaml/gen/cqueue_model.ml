
(** val negb : bool -> bool **)

let negb = function
| true -> false
| false -> true

type nat =
| O
| S of nat

(** val fst : ('a1 * 'a2) -> 'a1 **)

let fst = function
| (x, _) -> x

(** val snd : ('a1 * 'a2) -> 'a2 **)

let snd = function
| (_, y) -> y

(** val app : 'a1 list -> 'a1 list -> 'a1 list **)

let rec app l m =
  match l with
  | [] -> m
  | a :: l1 -> a :: (app l1 m)

type comparison =
| Eq
| Lt
| Gt

(** val compOpp : comparison -> comparison **)

let compOpp = function
| Eq -> Eq
| Lt -> Gt
| Gt -> Lt

module Coq__1 = struct
 (** val add : nat -> nat -> nat **)
 let rec add n m =
   match n with
   | O -> m
   | S p -> S (add p m)
end
include Coq__1

(** val sub : nat -> nat -> nat **)

let rec sub n m =
  match n with
  | O -> n
  | S k -> (match m with
            | O -> n
            | S l -> sub k l)

(** val eqb : bool -> bool -> bool **)

let eqb b1 b2 =
  if b1 then b2 else if b2 then false else true

module Nat =
 struct
  (** val sub : nat -> nat -> nat **)

  let rec sub n m =
    match n with
    | O -> n
    | S k -> (match m with
              | O -> n
              | S l -> sub k l)

  (** val eqb : nat -> nat -> bool **)

  let rec eqb n m =
    match n with
    | O -> (match m with
            | O -> true
            | S _ -> false)
    | S n' -> (match m with
               | O -> false
               | S m' -> eqb n' m')

  (** val leb : nat -> nat -> bool **)

  let rec leb n m =
    match n with
    | O -> true
    | S n' -> (match m with
               | O -> false
               | S m' -> leb n' m')

  (** val ltb : nat -> nat -> bool **)

  let ltb n m =
    leb (S n) m

  (** val divmod : nat -> nat -> nat -> nat -> nat * nat **)

  let rec divmod x y q u =
    match x with
    | O -> (q, u)
    | S x' ->
      (match u with
       | O -> divmod x' y (S q) y
       | S u' -> divmod x' y q u')

  (** val div : nat -> nat -> nat **)

  let div x y = match y with
  | O -> y
  | S y' -> fst (divmod x y' O y')

  (** val modulo : nat -> nat -> nat **)

  let modulo x = function
  | O -> x
  | S y' -> sub y' (snd (divmod x y' O y'))
 end

(** val forallb : ('a1 -> bool) -> 'a1 list -> bool **)

let rec forallb f = function
| [] -> true
| a :: l0 -> (&&) (f a) (forallb f l0)

(** val seq : nat -> nat -> nat list **)

let rec seq start = function
| O -> []
| S len0 -> start :: (seq (S start) len0)

type positive =
| XI of positive
| XO of positive
| XH

type z =
| Z0
| Zpos of positive
| Zneg of positive

module Pos =
 struct
  (** val succ : positive -> positive **)

  let rec succ = function
  | XI p -> XO (succ p)
  | XO p -> XI p
  | XH -> XO XH

  (** val add : positive -> positive -> positive **)

  let rec add x y =
    match x with
    | XI p ->
      (match y with
       | XI q -> XO (add_carry p q)
       | XO q -> XI (add p q)
       | XH -> XO (succ p))
    | XO p ->
      (match y with
       | XI q -> XI (add p q)
       | XO q -> XO (add p q)
       | XH -> XI p)
    | XH -> (match y with
             | XI q -> XO (succ q)
             | XO q -> XI q
             | XH -> XO XH)

  (** val add_carry : positive -> positive -> positive **)

  and add_carry x y =
    match x with
    | XI p ->
      (match y with
       | XI q -> XI (add_carry p q)
       | XO q -> XO (add_carry p q)
       | XH -> XI (succ p))
    | XO p ->
      (match y with
       | XI q -> XO (add_carry p q)
       | XO q -> XI (add p q)
       | XH -> XO (succ p))
    | XH ->
      (match y with
       | XI q -> XI (succ q)
       | XO q -> XO (succ q)
       | XH -> XI XH)

  (** val pred_double : positive -> positive **)

  let rec pred_double = function
  | XI p -> XI (XO p)
  | XO p -> XI (pred_double p)
  | XH -> XH

  (** val mul : positive -> positive -> positive **)

  let rec mul x y =
    match x with
    | XI p -> add y (XO (mul p y))
    | XO p -> XO (mul p y)
    | XH -> y

  (** val compare_cont : comparison -> positive -> positive -> comparison **)

  let rec compare_cont r x y =
    match x with
    | XI p ->
      (match y with
       | XI q -> compare_cont r p q
       | XO q -> compare_cont Gt p q
       | XH -> Gt)
    | XO p ->
      (match y with
       | XI q -> compare_cont Lt p q
       | XO q -> compare_cont r p q
       | XH -> Gt)
    | XH -> (match y with
             | XH -> r
             | _ -> Lt)

  (** val compare : positive -> positive -> comparison **)

  let compare =
    compare_cont Eq

  (** val eqb : positive -> positive -> bool **)

  let rec eqb p q =
    match p with
    | XI p0 -> (match q with
                | XI q0 -> eqb p0 q0
                | _ -> false)
    | XO p0 -> (match q with
                | XO q0 -> eqb p0 q0
                | _ -> false)
    | XH -> (match q with
             | XH -> true
             | _ -> false)

  (** val iter_op : ('a1 -> 'a1 -> 'a1) -> positive -> 'a1 -> 'a1 **)

  let rec iter_op op p a =
    match p with
    | XI p0 -> op a (iter_op op p0 (op a a))
    | XO p0 -> iter_op op p0 (op a a)
    | XH -> a

  (** val to_nat : positive -> nat **)

  let to_nat x =
    iter_op Coq__1.add x (S O)

  (** val of_succ_nat : nat -> positive **)

  let rec of_succ_nat = function
  | O -> XH
  | S x -> succ (of_succ_nat x)
 end

module Z =
 struct
  (** val double : z -> z **)

  let double = function
  | Z0 -> Z0
  | Zpos p -> Zpos (XO p)
  | Zneg p -> Zneg (XO p)

  (** val succ_double : z -> z **)

  let succ_double = function
  | Z0 -> Zpos XH
  | Zpos p -> Zpos (XI p)
  | Zneg p -> Zneg (Pos.pred_double p)

  (** val pred_double : z -> z **)

  let pred_double = function
  | Z0 -> Zneg XH
  | Zpos p -> Zpos (Pos.pred_double p)
  | Zneg p -> Zneg (XI p)

  (** val pos_sub : positive -> positive -> z **)

  let rec pos_sub x y =
    match x with
    | XI p ->
      (match y with
       | XI q -> double (pos_sub p q)
       | XO q -> succ_double (pos_sub p q)
       | XH -> Zpos (XO p))
    | XO p ->
      (match y with
       | XI q -> pred_double (pos_sub p q)
       | XO q -> double (pos_sub p q)
       | XH -> Zpos (Pos.pred_double p))
    | XH ->
      (match y with
       | XI q -> Zneg (XO q)
       | XO q -> Zneg (Pos.pred_double q)
       | XH -> Z0)

  (** val add : z -> z -> z **)

  let add x y =
    match x with
    | Z0 -> y
    | Zpos x' ->
      (match y with
       | Z0 -> x
       | Zpos y' -> Zpos (Pos.add x' y')
       | Zneg y' -> pos_sub x' y')
    | Zneg x' ->
      (match y with
       | Z0 -> x
       | Zpos y' -> pos_sub y' x'
       | Zneg y' -> Zneg (Pos.add x' y'))

  (** val opp : z -> z **)

  let opp = function
  | Z0 -> Z0
  | Zpos x0 -> Zneg x0
  | Zneg x0 -> Zpos x0

  (** val sub : z -> z -> z **)

  let sub m n =
    add m (opp n)

  (** val mul : z -> z -> z **)

  let mul x y =
    match x with
    | Z0 -> Z0
    | Zpos x' ->
      (match y with
       | Z0 -> Z0
       | Zpos y' -> Zpos (Pos.mul x' y')
       | Zneg y' -> Zneg (Pos.mul x' y'))
    | Zneg x' ->
      (match y with
       | Z0 -> Z0
       | Zpos y' -> Zneg (Pos.mul x' y')
       | Zneg y' -> Zpos (Pos.mul x' y'))

  (** val compare : z -> z -> comparison **)

  let compare x y =
    match x with
    | Z0 -> (match y with
             | Z0 -> Eq
             | Zpos _ -> Lt
             | Zneg _ -> Gt)
    | Zpos x' -> (match y with
                  | Zpos y' -> Pos.compare x' y'
                  | _ -> Gt)
    | Zneg x' ->
      (match y with
       | Zneg y' -> compOpp (Pos.compare x' y')
       | _ -> Lt)

  (** val leb : z -> z -> bool **)

  let leb x y =
    match compare x y with
    | Gt -> false
    | _ -> true

  (** val ltb : z -> z -> bool **)

  let ltb x y =
    match compare x y with
    | Lt -> true
    | _ -> false

  (** val eqb : z -> z -> bool **)

  let eqb x y =
    match x with
    | Z0 -> (match y with
             | Z0 -> true
             | _ -> false)
    | Zpos p -> (match y with
                 | Zpos q -> Pos.eqb p q
                 | _ -> false)
    | Zneg p -> (match y with
                 | Zneg q -> Pos.eqb p q
                 | _ -> false)

  (** val to_nat : z -> nat **)

  let to_nat = function
  | Zpos p -> Pos.to_nat p
  | _ -> O

  (** val of_nat : nat -> z **)

  let of_nat = function
  | O -> Z0
  | S n0 -> Zpos (Pos.of_succ_nat n0)

  (** val pos_div_eucl : positive -> z -> z * z **)

  let rec pos_div_eucl a b =
    match a with
    | XI a' ->
      let (q, r) = pos_div_eucl a' b in
      let r' = add (mul (Zpos (XO XH)) r) (Zpos XH) in
      if ltb r' b
      then ((mul (Zpos (XO XH)) q), r')
      else ((add (mul (Zpos (XO XH)) q) (Zpos XH)), (sub r' b))
    | XO a' ->
      let (q, r) = pos_div_eucl a' b in
      let r' = mul (Zpos (XO XH)) r in
      if ltb r' b
      then ((mul (Zpos (XO XH)) q), r')
      else ((add (mul (Zpos (XO XH)) q) (Zpos XH)), (sub r' b))
    | XH -> if leb (Zpos (XO XH)) b then (Z0, (Zpos XH)) else ((Zpos XH), Z0)

  (** val div_eucl : z -> z -> z * z **)

  let div_eucl a b =
    match a with
    | Z0 -> (Z0, Z0)
    | Zpos a' ->
      (match b with
       | Z0 -> (Z0, a)
       | Zpos _ -> pos_div_eucl a' b
       | Zneg b' ->
         let (q, r) = pos_div_eucl a' (Zpos b') in
         (match r with
          | Z0 -> ((opp q), Z0)
          | _ -> ((opp (add q (Zpos XH))), (add b r))))
    | Zneg a' ->
      (match b with
       | Z0 -> (Z0, a)
       | Zpos _ ->
         let (q, r) = pos_div_eucl a' b in
         (match r with
          | Z0 -> ((opp q), Z0)
          | _ -> ((opp (add q (Zpos XH))), (sub b r)))
       | Zneg b' -> let (q, r) = pos_div_eucl a' (Zpos b') in (q, (opp r)))

  (** val div : z -> z -> z **)

  let div a b =
    let (q, _) = div_eucl a b in q

  (** val modulo : z -> z -> z **)

  let modulo a b =
    let (_, r) = div_eucl a b in r
 end

type qent =
| ENormal of nat
| EDone of nat

type apc =
| ANone
| ATop
| AS0
| AS1
| ASusp
| ABot
| AD0
| AD1
| AD2
| AD3
| AD4
| AF1
| ADone

type kpcT =
| KNone
| K0
| K1
| K2
| K3
| K4
| KDone

type aresult =
| RRun
| ROk
| RPanic of nat
| RCancel

type unw =
| UNone
| UPanic of nat
| UCancel

type opcT =
| ONone
| OBody
| OA2
| OA3
| P1
| P2
| P2b
| P3
| P4
| P4t
| P5
| P5w
| P6
| PRun
| Cpre
| C0
| CJ
| C1
| C2
| C3
| OUnw
| FC0
| FC1
| FD0
| FE0
| FE1
| OExit
| OBug

type lastret =
| LNone
| LOk of nat
| LTimeout
| LFinished
| LRaised

type cfg = { c_cntfirst : bool; c_joinalways : bool; c_kwait : bool;
             c_sendraise : bool }

(** val current : cfg **)

let current =
  { c_cntfirst = true; c_joinalways = true; c_kwait = true; c_sendraise =
    true }

type st = { evq : qent list; cnt : z; towake : nat option;
            sel : (nat -> bool); total : nat; ispan : bool;
            pc : (nat -> apc); cbit : (nat -> bool); inl : (nat -> bool);
            kern : (nat -> nat); ares : (nat -> aresult);
            jst : (nat -> bool); aw : (nat -> nat); acur : (nat -> nat);
            kpc : (nat -> kpcT); earm : (nat -> nat); kw : (nat -> nat);
            tok : (nat -> bool); nextb : nat; opc : opcT; oco : bool;
            ocbit : bool; odis : nat; ounw : unw; ofin : nat; opay : 
            unw; oto : z option; odl : z option; opdl : z option; ocall : 
            z; oalld : bool; ob : nat; ocur : nat; oev : nat;
            ojres : aresult; fi : nat; ostash : qent; owk : bool; now : 
            z; nexta : nat; nexte : nat; tops : (nat -> nat);
            bots : (nat -> nat); botd : (nat -> nat); sent : (nat -> nat);
            byield : (nat -> bool); epush : (nat -> nat);
            epop : (nat -> nat); ernd : (nat -> nat); dpush : (nat -> nat);
            dpop : (nat -> nat); olast : lastret; rer : nat;
            rerp : nat option; oleft : bool }

(** val set_evq : st -> qent list -> st **)

let set_evq s v =
  { evq = v; cnt = s.cnt; towake = s.towake; sel = s.sel; total = s.total;
    ispan = s.ispan; pc = s.pc; cbit = s.cbit; inl = s.inl; kern = s.kern;
    ares = s.ares; jst = s.jst; aw = s.aw; acur = s.acur; kpc = s.kpc; earm =
    s.earm; kw = s.kw; tok = s.tok; nextb = s.nextb; opc = s.opc; oco =
    s.oco; ocbit = s.ocbit; odis = s.odis; ounw = s.ounw; ofin = s.ofin;
    opay = s.opay; oto = s.oto; odl = s.odl; opdl = s.opdl; ocall = s.ocall;
    oalld = s.oalld; ob = s.ob; ocur = s.ocur; oev = s.oev; ojres = s.ojres;
    fi = s.fi; ostash = s.ostash; owk = s.owk; now = s.now; nexta = s.nexta;
    nexte = s.nexte; tops = s.tops; bots = s.bots; botd = s.botd; sent =
    s.sent; byield = s.byield; epush = s.epush; epop = s.epop; ernd = s.ernd;
    dpush = s.dpush; dpop = s.dpop; olast = s.olast; rer = s.rer; rerp =
    s.rerp; oleft = s.oleft }

(** val set_cnt : st -> z -> st **)

let set_cnt s v =
  { evq = s.evq; cnt = v; towake = s.towake; sel = s.sel; total = s.total;
    ispan = s.ispan; pc = s.pc; cbit = s.cbit; inl = s.inl; kern = s.kern;
    ares = s.ares; jst = s.jst; aw = s.aw; acur = s.acur; kpc = s.kpc; earm =
    s.earm; kw = s.kw; tok = s.tok; nextb = s.nextb; opc = s.opc; oco =
    s.oco; ocbit = s.ocbit; odis = s.odis; ounw = s.ounw; ofin = s.ofin;
    opay = s.opay; oto = s.oto; odl = s.odl; opdl = s.opdl; ocall = s.ocall;
    oalld = s.oalld; ob = s.ob; ocur = s.ocur; oev = s.oev; ojres = s.ojres;
    fi = s.fi; ostash = s.ostash; owk = s.owk; now = s.now; nexta = s.nexta;
    nexte = s.nexte; tops = s.tops; bots = s.bots; botd = s.botd; sent =
    s.sent; byield = s.byield; epush = s.epush; epop = s.epop; ernd = s.ernd;
    dpush = s.dpush; dpop = s.dpop; olast = s.olast; rer = s.rer; rerp =
    s.rerp; oleft = s.oleft }

(** val set_towake : st -> nat option -> st **)

let set_towake s v =
  { evq = s.evq; cnt = s.cnt; towake = v; sel = s.sel; total = s.total;
    ispan = s.ispan; pc = s.pc; cbit = s.cbit; inl = s.inl; kern = s.kern;
    ares = s.ares; jst = s.jst; aw = s.aw; acur = s.acur; kpc = s.kpc; earm =
    s.earm; kw = s.kw; tok = s.tok; nextb = s.nextb; opc = s.opc; oco =
    s.oco; ocbit = s.ocbit; odis = s.odis; ounw = s.ounw; ofin = s.ofin;
    opay = s.opay; oto = s.oto; odl = s.odl; opdl = s.opdl; ocall = s.ocall;
    oalld = s.oalld; ob = s.ob; ocur = s.ocur; oev = s.oev; ojres = s.ojres;
    fi = s.fi; ostash = s.ostash; owk = s.owk; now = s.now; nexta = s.nexta;
    nexte = s.nexte; tops = s.tops; bots = s.bots; botd = s.botd; sent =
    s.sent; byield = s.byield; epush = s.epush; epop = s.epop; ernd = s.ernd;
    dpush = s.dpush; dpop = s.dpop; olast = s.olast; rer = s.rer; rerp =
    s.rerp; oleft = s.oleft }

(** val set_sel : st -> (nat -> bool) -> st **)

let set_sel s v =
  { evq = s.evq; cnt = s.cnt; towake = s.towake; sel = v; total = s.total;
    ispan = s.ispan; pc = s.pc; cbit = s.cbit; inl = s.inl; kern = s.kern;
    ares = s.ares; jst = s.jst; aw = s.aw; acur = s.acur; kpc = s.kpc; earm =
    s.earm; kw = s.kw; tok = s.tok; nextb = s.nextb; opc = s.opc; oco =
    s.oco; ocbit = s.ocbit; odis = s.odis; ounw = s.ounw; ofin = s.ofin;
    opay = s.opay; oto = s.oto; odl = s.odl; opdl = s.opdl; ocall = s.ocall;
    oalld = s.oalld; ob = s.ob; ocur = s.ocur; oev = s.oev; ojres = s.ojres;
    fi = s.fi; ostash = s.ostash; owk = s.owk; now = s.now; nexta = s.nexta;
    nexte = s.nexte; tops = s.tops; bots = s.bots; botd = s.botd; sent =
    s.sent; byield = s.byield; epush = s.epush; epop = s.epop; ernd = s.ernd;
    dpush = s.dpush; dpop = s.dpop; olast = s.olast; rer = s.rer; rerp =
    s.rerp; oleft = s.oleft }

(** val set_total : st -> nat -> st **)

let set_total s v =
  { evq = s.evq; cnt = s.cnt; towake = s.towake; sel = s.sel; total = v;
    ispan = s.ispan; pc = s.pc; cbit = s.cbit; inl = s.inl; kern = s.kern;
    ares = s.ares; jst = s.jst; aw = s.aw; acur = s.acur; kpc = s.kpc; earm =
    s.earm; kw = s.kw; tok = s.tok; nextb = s.nextb; opc = s.opc; oco =
    s.oco; ocbit = s.ocbit; odis = s.odis; ounw = s.ounw; ofin = s.ofin;
    opay = s.opay; oto = s.oto; odl = s.odl; opdl = s.opdl; ocall = s.ocall;
    oalld = s.oalld; ob = s.ob; ocur = s.ocur; oev = s.oev; ojres = s.ojres;
    fi = s.fi; ostash = s.ostash; owk = s.owk; now = s.now; nexta = s.nexta;
    nexte = s.nexte; tops = s.tops; bots = s.bots; botd = s.botd; sent =
    s.sent; byield = s.byield; epush = s.epush; epop = s.epop; ernd = s.ernd;
    dpush = s.dpush; dpop = s.dpop; olast = s.olast; rer = s.rer; rerp =
    s.rerp; oleft = s.oleft }

(** val set_ispan : st -> bool -> st **)

let set_ispan s v =
  { evq = s.evq; cnt = s.cnt; towake = s.towake; sel = s.sel; total =
    s.total; ispan = v; pc = s.pc; cbit = s.cbit; inl = s.inl; kern = s.kern;
    ares = s.ares; jst = s.jst; aw = s.aw; acur = s.acur; kpc = s.kpc; earm =
    s.earm; kw = s.kw; tok = s.tok; nextb = s.nextb; opc = s.opc; oco =
    s.oco; ocbit = s.ocbit; odis = s.odis; ounw = s.ounw; ofin = s.ofin;
    opay = s.opay; oto = s.oto; odl = s.odl; opdl = s.opdl; ocall = s.ocall;
    oalld = s.oalld; ob = s.ob; ocur = s.ocur; oev = s.oev; ojres = s.ojres;
    fi = s.fi; ostash = s.ostash; owk = s.owk; now = s.now; nexta = s.nexta;
    nexte = s.nexte; tops = s.tops; bots = s.bots; botd = s.botd; sent =
    s.sent; byield = s.byield; epush = s.epush; epop = s.epop; ernd = s.ernd;
    dpush = s.dpush; dpop = s.dpop; olast = s.olast; rer = s.rer; rerp =
    s.rerp; oleft = s.oleft }

(** val set_pc : st -> (nat -> apc) -> st **)

let set_pc s v =
  { evq = s.evq; cnt = s.cnt; towake = s.towake; sel = s.sel; total =
    s.total; ispan = s.ispan; pc = v; cbit = s.cbit; inl = s.inl; kern =
    s.kern; ares = s.ares; jst = s.jst; aw = s.aw; acur = s.acur; kpc =
    s.kpc; earm = s.earm; kw = s.kw; tok = s.tok; nextb = s.nextb; opc =
    s.opc; oco = s.oco; ocbit = s.ocbit; odis = s.odis; ounw = s.ounw; ofin =
    s.ofin; opay = s.opay; oto = s.oto; odl = s.odl; opdl = s.opdl; ocall =
    s.ocall; oalld = s.oalld; ob = s.ob; ocur = s.ocur; oev = s.oev; ojres =
    s.ojres; fi = s.fi; ostash = s.ostash; owk = s.owk; now = s.now; nexta =
    s.nexta; nexte = s.nexte; tops = s.tops; bots = s.bots; botd = s.botd;
    sent = s.sent; byield = s.byield; epush = s.epush; epop = s.epop; ernd =
    s.ernd; dpush = s.dpush; dpop = s.dpop; olast = s.olast; rer = s.rer;
    rerp = s.rerp; oleft = s.oleft }

(** val set_cbit : st -> (nat -> bool) -> st **)

let set_cbit s v =
  { evq = s.evq; cnt = s.cnt; towake = s.towake; sel = s.sel; total =
    s.total; ispan = s.ispan; pc = s.pc; cbit = v; inl = s.inl; kern =
    s.kern; ares = s.ares; jst = s.jst; aw = s.aw; acur = s.acur; kpc =
    s.kpc; earm = s.earm; kw = s.kw; tok = s.tok; nextb = s.nextb; opc =
    s.opc; oco = s.oco; ocbit = s.ocbit; odis = s.odis; ounw = s.ounw; ofin =
    s.ofin; opay = s.opay; oto = s.oto; odl = s.odl; opdl = s.opdl; ocall =
    s.ocall; oalld = s.oalld; ob = s.ob; ocur = s.ocur; oev = s.oev; ojres =
    s.ojres; fi = s.fi; ostash = s.ostash; owk = s.owk; now = s.now; nexta =
    s.nexta; nexte = s.nexte; tops = s.tops; bots = s.bots; botd = s.botd;
    sent = s.sent; byield = s.byield; epush = s.epush; epop = s.epop; ernd =
    s.ernd; dpush = s.dpush; dpop = s.dpop; olast = s.olast; rer = s.rer;
    rerp = s.rerp; oleft = s.oleft }

(** val set_inl : st -> (nat -> bool) -> st **)

let set_inl s v =
  { evq = s.evq; cnt = s.cnt; towake = s.towake; sel = s.sel; total =
    s.total; ispan = s.ispan; pc = s.pc; cbit = s.cbit; inl = v; kern =
    s.kern; ares = s.ares; jst = s.jst; aw = s.aw; acur = s.acur; kpc =
    s.kpc; earm = s.earm; kw = s.kw; tok = s.tok; nextb = s.nextb; opc =
    s.opc; oco = s.oco; ocbit = s.ocbit; odis = s.odis; ounw = s.ounw; ofin =
    s.ofin; opay = s.opay; oto = s.oto; odl = s.odl; opdl = s.opdl; ocall =
    s.ocall; oalld = s.oalld; ob = s.ob; ocur = s.ocur; oev = s.oev; ojres =
    s.ojres; fi = s.fi; ostash = s.ostash; owk = s.owk; now = s.now; nexta =
    s.nexta; nexte = s.nexte; tops = s.tops; bots = s.bots; botd = s.botd;
    sent = s.sent; byield = s.byield; epush = s.epush; epop = s.epop; ernd =
    s.ernd; dpush = s.dpush; dpop = s.dpop; olast = s.olast; rer = s.rer;
    rerp = s.rerp; oleft = s.oleft }

(** val set_kern : st -> (nat -> nat) -> st **)

let set_kern s v =
  { evq = s.evq; cnt = s.cnt; towake = s.towake; sel = s.sel; total =
    s.total; ispan = s.ispan; pc = s.pc; cbit = s.cbit; inl = s.inl; kern =
    v; ares = s.ares; jst = s.jst; aw = s.aw; acur = s.acur; kpc = s.kpc;
    earm = s.earm; kw = s.kw; tok = s.tok; nextb = s.nextb; opc = s.opc;
    oco = s.oco; ocbit = s.ocbit; odis = s.odis; ounw = s.ounw; ofin =
    s.ofin; opay = s.opay; oto = s.oto; odl = s.odl; opdl = s.opdl; ocall =
    s.ocall; oalld = s.oalld; ob = s.ob; ocur = s.ocur; oev = s.oev; ojres =
    s.ojres; fi = s.fi; ostash = s.ostash; owk = s.owk; now = s.now; nexta =
    s.nexta; nexte = s.nexte; tops = s.tops; bots = s.bots; botd = s.botd;
    sent = s.sent; byield = s.byield; epush = s.epush; epop = s.epop; ernd =
    s.ernd; dpush = s.dpush; dpop = s.dpop; olast = s.olast; rer = s.rer;
    rerp = s.rerp; oleft = s.oleft }

(** val set_ares : st -> (nat -> aresult) -> st **)

let set_ares s v =
  { evq = s.evq; cnt = s.cnt; towake = s.towake; sel = s.sel; total =
    s.total; ispan = s.ispan; pc = s.pc; cbit = s.cbit; inl = s.inl; kern =
    s.kern; ares = v; jst = s.jst; aw = s.aw; acur = s.acur; kpc = s.kpc;
    earm = s.earm; kw = s.kw; tok = s.tok; nextb = s.nextb; opc = s.opc;
    oco = s.oco; ocbit = s.ocbit; odis = s.odis; ounw = s.ounw; ofin =
    s.ofin; opay = s.opay; oto = s.oto; odl = s.odl; opdl = s.opdl; ocall =
    s.ocall; oalld = s.oalld; ob = s.ob; ocur = s.ocur; oev = s.oev; ojres =
    s.ojres; fi = s.fi; ostash = s.ostash; owk = s.owk; now = s.now; nexta =
    s.nexta; nexte = s.nexte; tops = s.tops; bots = s.bots; botd = s.botd;
    sent = s.sent; byield = s.byield; epush = s.epush; epop = s.epop; ernd =
    s.ernd; dpush = s.dpush; dpop = s.dpop; olast = s.olast; rer = s.rer;
    rerp = s.rerp; oleft = s.oleft }

(** val set_jst : st -> (nat -> bool) -> st **)

let set_jst s v =
  { evq = s.evq; cnt = s.cnt; towake = s.towake; sel = s.sel; total =
    s.total; ispan = s.ispan; pc = s.pc; cbit = s.cbit; inl = s.inl; kern =
    s.kern; ares = s.ares; jst = v; aw = s.aw; acur = s.acur; kpc = s.kpc;
    earm = s.earm; kw = s.kw; tok = s.tok; nextb = s.nextb; opc = s.opc;
    oco = s.oco; ocbit = s.ocbit; odis = s.odis; ounw = s.ounw; ofin =
    s.ofin; opay = s.opay; oto = s.oto; odl = s.odl; opdl = s.opdl; ocall =
    s.ocall; oalld = s.oalld; ob = s.ob; ocur = s.ocur; oev = s.oev; ojres =
    s.ojres; fi = s.fi; ostash = s.ostash; owk = s.owk; now = s.now; nexta =
    s.nexta; nexte = s.nexte; tops = s.tops; bots = s.bots; botd = s.botd;
    sent = s.sent; byield = s.byield; epush = s.epush; epop = s.epop; ernd =
    s.ernd; dpush = s.dpush; dpop = s.dpop; olast = s.olast; rer = s.rer;
    rerp = s.rerp; oleft = s.oleft }

(** val set_aw : st -> (nat -> nat) -> st **)

let set_aw s v =
  { evq = s.evq; cnt = s.cnt; towake = s.towake; sel = s.sel; total =
    s.total; ispan = s.ispan; pc = s.pc; cbit = s.cbit; inl = s.inl; kern =
    s.kern; ares = s.ares; jst = s.jst; aw = v; acur = s.acur; kpc = s.kpc;
    earm = s.earm; kw = s.kw; tok = s.tok; nextb = s.nextb; opc = s.opc;
    oco = s.oco; ocbit = s.ocbit; odis = s.odis; ounw = s.ounw; ofin =
    s.ofin; opay = s.opay; oto = s.oto; odl = s.odl; opdl = s.opdl; ocall =
    s.ocall; oalld = s.oalld; ob = s.ob; ocur = s.ocur; oev = s.oev; ojres =
    s.ojres; fi = s.fi; ostash = s.ostash; owk = s.owk; now = s.now; nexta =
    s.nexta; nexte = s.nexte; tops = s.tops; bots = s.bots; botd = s.botd;
    sent = s.sent; byield = s.byield; epush = s.epush; epop = s.epop; ernd =
    s.ernd; dpush = s.dpush; dpop = s.dpop; olast = s.olast; rer = s.rer;
    rerp = s.rerp; oleft = s.oleft }

(** val set_acur : st -> (nat -> nat) -> st **)

let set_acur s v =
  { evq = s.evq; cnt = s.cnt; towake = s.towake; sel = s.sel; total =
    s.total; ispan = s.ispan; pc = s.pc; cbit = s.cbit; inl = s.inl; kern =
    s.kern; ares = s.ares; jst = s.jst; aw = s.aw; acur = v; kpc = s.kpc;
    earm = s.earm; kw = s.kw; tok = s.tok; nextb = s.nextb; opc = s.opc;
    oco = s.oco; ocbit = s.ocbit; odis = s.odis; ounw = s.ounw; ofin =
    s.ofin; opay = s.opay; oto = s.oto; odl = s.odl; opdl = s.opdl; ocall =
    s.ocall; oalld = s.oalld; ob = s.ob; ocur = s.ocur; oev = s.oev; ojres =
    s.ojres; fi = s.fi; ostash = s.ostash; owk = s.owk; now = s.now; nexta =
    s.nexta; nexte = s.nexte; tops = s.tops; bots = s.bots; botd = s.botd;
    sent = s.sent; byield = s.byield; epush = s.epush; epop = s.epop; ernd =
    s.ernd; dpush = s.dpush; dpop = s.dpop; olast = s.olast; rer = s.rer;
    rerp = s.rerp; oleft = s.oleft }

(** val set_kpc : st -> (nat -> kpcT) -> st **)

let set_kpc s v =
  { evq = s.evq; cnt = s.cnt; towake = s.towake; sel = s.sel; total =
    s.total; ispan = s.ispan; pc = s.pc; cbit = s.cbit; inl = s.inl; kern =
    s.kern; ares = s.ares; jst = s.jst; aw = s.aw; acur = s.acur; kpc = v;
    earm = s.earm; kw = s.kw; tok = s.tok; nextb = s.nextb; opc = s.opc;
    oco = s.oco; ocbit = s.ocbit; odis = s.odis; ounw = s.ounw; ofin =
    s.ofin; opay = s.opay; oto = s.oto; odl = s.odl; opdl = s.opdl; ocall =
    s.ocall; oalld = s.oalld; ob = s.ob; ocur = s.ocur; oev = s.oev; ojres =
    s.ojres; fi = s.fi; ostash = s.ostash; owk = s.owk; now = s.now; nexta =
    s.nexta; nexte = s.nexte; tops = s.tops; bots = s.bots; botd = s.botd;
    sent = s.sent; byield = s.byield; epush = s.epush; epop = s.epop; ernd =
    s.ernd; dpush = s.dpush; dpop = s.dpop; olast = s.olast; rer = s.rer;
    rerp = s.rerp; oleft = s.oleft }

(** val set_earm : st -> (nat -> nat) -> st **)

let set_earm s v =
  { evq = s.evq; cnt = s.cnt; towake = s.towake; sel = s.sel; total =
    s.total; ispan = s.ispan; pc = s.pc; cbit = s.cbit; inl = s.inl; kern =
    s.kern; ares = s.ares; jst = s.jst; aw = s.aw; acur = s.acur; kpc =
    s.kpc; earm = v; kw = s.kw; tok = s.tok; nextb = s.nextb; opc = s.opc;
    oco = s.oco; ocbit = s.ocbit; odis = s.odis; ounw = s.ounw; ofin =
    s.ofin; opay = s.opay; oto = s.oto; odl = s.odl; opdl = s.opdl; ocall =
    s.ocall; oalld = s.oalld; ob = s.ob; ocur = s.ocur; oev = s.oev; ojres =
    s.ojres; fi = s.fi; ostash = s.ostash; owk = s.owk; now = s.now; nexta =
    s.nexta; nexte = s.nexte; tops = s.tops; bots = s.bots; botd = s.botd;
    sent = s.sent; byield = s.byield; epush = s.epush; epop = s.epop; ernd =
    s.ernd; dpush = s.dpush; dpop = s.dpop; olast = s.olast; rer = s.rer;
    rerp = s.rerp; oleft = s.oleft }

(** val set_kw : st -> (nat -> nat) -> st **)

let set_kw s v =
  { evq = s.evq; cnt = s.cnt; towake = s.towake; sel = s.sel; total =
    s.total; ispan = s.ispan; pc = s.pc; cbit = s.cbit; inl = s.inl; kern =
    s.kern; ares = s.ares; jst = s.jst; aw = s.aw; acur = s.acur; kpc =
    s.kpc; earm = s.earm; kw = v; tok = s.tok; nextb = s.nextb; opc = s.opc;
    oco = s.oco; ocbit = s.ocbit; odis = s.odis; ounw = s.ounw; ofin =
    s.ofin; opay = s.opay; oto = s.oto; odl = s.odl; opdl = s.opdl; ocall =
    s.ocall; oalld = s.oalld; ob = s.ob; ocur = s.ocur; oev = s.oev; ojres =
    s.ojres; fi = s.fi; ostash = s.ostash; owk = s.owk; now = s.now; nexta =
    s.nexta; nexte = s.nexte; tops = s.tops; bots = s.bots; botd = s.botd;
    sent = s.sent; byield = s.byield; epush = s.epush; epop = s.epop; ernd =
    s.ernd; dpush = s.dpush; dpop = s.dpop; olast = s.olast; rer = s.rer;
    rerp = s.rerp; oleft = s.oleft }

(** val set_tok : st -> (nat -> bool) -> st **)

let set_tok s v =
  { evq = s.evq; cnt = s.cnt; towake = s.towake; sel = s.sel; total =
    s.total; ispan = s.ispan; pc = s.pc; cbit = s.cbit; inl = s.inl; kern =
    s.kern; ares = s.ares; jst = s.jst; aw = s.aw; acur = s.acur; kpc =
    s.kpc; earm = s.earm; kw = s.kw; tok = v; nextb = s.nextb; opc = s.opc;
    oco = s.oco; ocbit = s.ocbit; odis = s.odis; ounw = s.ounw; ofin =
    s.ofin; opay = s.opay; oto = s.oto; odl = s.odl; opdl = s.opdl; ocall =
    s.ocall; oalld = s.oalld; ob = s.ob; ocur = s.ocur; oev = s.oev; ojres =
    s.ojres; fi = s.fi; ostash = s.ostash; owk = s.owk; now = s.now; nexta =
    s.nexta; nexte = s.nexte; tops = s.tops; bots = s.bots; botd = s.botd;
    sent = s.sent; byield = s.byield; epush = s.epush; epop = s.epop; ernd =
    s.ernd; dpush = s.dpush; dpop = s.dpop; olast = s.olast; rer = s.rer;
    rerp = s.rerp; oleft = s.oleft }

(** val set_nextb : st -> nat -> st **)

let set_nextb s v =
  { evq = s.evq; cnt = s.cnt; towake = s.towake; sel = s.sel; total =
    s.total; ispan = s.ispan; pc = s.pc; cbit = s.cbit; inl = s.inl; kern =
    s.kern; ares = s.ares; jst = s.jst; aw = s.aw; acur = s.acur; kpc =
    s.kpc; earm = s.earm; kw = s.kw; tok = s.tok; nextb = v; opc = s.opc;
    oco = s.oco; ocbit = s.ocbit; odis = s.odis; ounw = s.ounw; ofin =
    s.ofin; opay = s.opay; oto = s.oto; odl = s.odl; opdl = s.opdl; ocall =
    s.ocall; oalld = s.oalld; ob = s.ob; ocur = s.ocur; oev = s.oev; ojres =
    s.ojres; fi = s.fi; ostash = s.ostash; owk = s.owk; now = s.now; nexta =
    s.nexta; nexte = s.nexte; tops = s.tops; bots = s.bots; botd = s.botd;
    sent = s.sent; byield = s.byield; epush = s.epush; epop = s.epop; ernd =
    s.ernd; dpush = s.dpush; dpop = s.dpop; olast = s.olast; rer = s.rer;
    rerp = s.rerp; oleft = s.oleft }

(** val set_opc : st -> opcT -> st **)

let set_opc s v =
  { evq = s.evq; cnt = s.cnt; towake = s.towake; sel = s.sel; total =
    s.total; ispan = s.ispan; pc = s.pc; cbit = s.cbit; inl = s.inl; kern =
    s.kern; ares = s.ares; jst = s.jst; aw = s.aw; acur = s.acur; kpc =
    s.kpc; earm = s.earm; kw = s.kw; tok = s.tok; nextb = s.nextb; opc = v;
    oco = s.oco; ocbit = s.ocbit; odis = s.odis; ounw = s.ounw; ofin =
    s.ofin; opay = s.opay; oto = s.oto; odl = s.odl; opdl = s.opdl; ocall =
    s.ocall; oalld = s.oalld; ob = s.ob; ocur = s.ocur; oev = s.oev; ojres =
    s.ojres; fi = s.fi; ostash = s.ostash; owk = s.owk; now = s.now; nexta =
    s.nexta; nexte = s.nexte; tops = s.tops; bots = s.bots; botd = s.botd;
    sent = s.sent; byield = s.byield; epush = s.epush; epop = s.epop; ernd =
    s.ernd; dpush = s.dpush; dpop = s.dpop; olast = s.olast; rer = s.rer;
    rerp = s.rerp; oleft = s.oleft }

(** val set_oco : st -> bool -> st **)

let set_oco s v =
  { evq = s.evq; cnt = s.cnt; towake = s.towake; sel = s.sel; total =
    s.total; ispan = s.ispan; pc = s.pc; cbit = s.cbit; inl = s.inl; kern =
    s.kern; ares = s.ares; jst = s.jst; aw = s.aw; acur = s.acur; kpc =
    s.kpc; earm = s.earm; kw = s.kw; tok = s.tok; nextb = s.nextb; opc =
    s.opc; oco = v; ocbit = s.ocbit; odis = s.odis; ounw = s.ounw; ofin =
    s.ofin; opay = s.opay; oto = s.oto; odl = s.odl; opdl = s.opdl; ocall =
    s.ocall; oalld = s.oalld; ob = s.ob; ocur = s.ocur; oev = s.oev; ojres =
    s.ojres; fi = s.fi; ostash = s.ostash; owk = s.owk; now = s.now; nexta =
    s.nexta; nexte = s.nexte; tops = s.tops; bots = s.bots; botd = s.botd;
    sent = s.sent; byield = s.byield; epush = s.epush; epop = s.epop; ernd =
    s.ernd; dpush = s.dpush; dpop = s.dpop; olast = s.olast; rer = s.rer;
    rerp = s.rerp; oleft = s.oleft }

(** val set_ocbit : st -> bool -> st **)

let set_ocbit s v =
  { evq = s.evq; cnt = s.cnt; towake = s.towake; sel = s.sel; total =
    s.total; ispan = s.ispan; pc = s.pc; cbit = s.cbit; inl = s.inl; kern =
    s.kern; ares = s.ares; jst = s.jst; aw = s.aw; acur = s.acur; kpc =
    s.kpc; earm = s.earm; kw = s.kw; tok = s.tok; nextb = s.nextb; opc =
    s.opc; oco = s.oco; ocbit = v; odis = s.odis; ounw = s.ounw; ofin =
    s.ofin; opay = s.opay; oto = s.oto; odl = s.odl; opdl = s.opdl; ocall =
    s.ocall; oalld = s.oalld; ob = s.ob; ocur = s.ocur; oev = s.oev; ojres =
    s.ojres; fi = s.fi; ostash = s.ostash; owk = s.owk; now = s.now; nexta =
    s.nexta; nexte = s.nexte; tops = s.tops; bots = s.bots; botd = s.botd;
    sent = s.sent; byield = s.byield; epush = s.epush; epop = s.epop; ernd =
    s.ernd; dpush = s.dpush; dpop = s.dpop; olast = s.olast; rer = s.rer;
    rerp = s.rerp; oleft = s.oleft }

(** val set_odis : st -> nat -> st **)

let set_odis s v =
  { evq = s.evq; cnt = s.cnt; towake = s.towake; sel = s.sel; total =
    s.total; ispan = s.ispan; pc = s.pc; cbit = s.cbit; inl = s.inl; kern =
    s.kern; ares = s.ares; jst = s.jst; aw = s.aw; acur = s.acur; kpc =
    s.kpc; earm = s.earm; kw = s.kw; tok = s.tok; nextb = s.nextb; opc =
    s.opc; oco = s.oco; ocbit = s.ocbit; odis = v; ounw = s.ounw; ofin =
    s.ofin; opay = s.opay; oto = s.oto; odl = s.odl; opdl = s.opdl; ocall =
    s.ocall; oalld = s.oalld; ob = s.ob; ocur = s.ocur; oev = s.oev; ojres =
    s.ojres; fi = s.fi; ostash = s.ostash; owk = s.owk; now = s.now; nexta =
    s.nexta; nexte = s.nexte; tops = s.tops; bots = s.bots; botd = s.botd;
    sent = s.sent; byield = s.byield; epush = s.epush; epop = s.epop; ernd =
    s.ernd; dpush = s.dpush; dpop = s.dpop; olast = s.olast; rer = s.rer;
    rerp = s.rerp; oleft = s.oleft }

(** val set_ounw : st -> unw -> st **)

let set_ounw s v =
  { evq = s.evq; cnt = s.cnt; towake = s.towake; sel = s.sel; total =
    s.total; ispan = s.ispan; pc = s.pc; cbit = s.cbit; inl = s.inl; kern =
    s.kern; ares = s.ares; jst = s.jst; aw = s.aw; acur = s.acur; kpc =
    s.kpc; earm = s.earm; kw = s.kw; tok = s.tok; nextb = s.nextb; opc =
    s.opc; oco = s.oco; ocbit = s.ocbit; odis = s.odis; ounw = v; ofin =
    s.ofin; opay = s.opay; oto = s.oto; odl = s.odl; opdl = s.opdl; ocall =
    s.ocall; oalld = s.oalld; ob = s.ob; ocur = s.ocur; oev = s.oev; ojres =
    s.ojres; fi = s.fi; ostash = s.ostash; owk = s.owk; now = s.now; nexta =
    s.nexta; nexte = s.nexte; tops = s.tops; bots = s.bots; botd = s.botd;
    sent = s.sent; byield = s.byield; epush = s.epush; epop = s.epop; ernd =
    s.ernd; dpush = s.dpush; dpop = s.dpop; olast = s.olast; rer = s.rer;
    rerp = s.rerp; oleft = s.oleft }

(** val set_ofin : st -> nat -> st **)

let set_ofin s v =
  { evq = s.evq; cnt = s.cnt; towake = s.towake; sel = s.sel; total =
    s.total; ispan = s.ispan; pc = s.pc; cbit = s.cbit; inl = s.inl; kern =
    s.kern; ares = s.ares; jst = s.jst; aw = s.aw; acur = s.acur; kpc =
    s.kpc; earm = s.earm; kw = s.kw; tok = s.tok; nextb = s.nextb; opc =
    s.opc; oco = s.oco; ocbit = s.ocbit; odis = s.odis; ounw = s.ounw; ofin =
    v; opay = s.opay; oto = s.oto; odl = s.odl; opdl = s.opdl; ocall =
    s.ocall; oalld = s.oalld; ob = s.ob; ocur = s.ocur; oev = s.oev; ojres =
    s.ojres; fi = s.fi; ostash = s.ostash; owk = s.owk; now = s.now; nexta =
    s.nexta; nexte = s.nexte; tops = s.tops; bots = s.bots; botd = s.botd;
    sent = s.sent; byield = s.byield; epush = s.epush; epop = s.epop; ernd =
    s.ernd; dpush = s.dpush; dpop = s.dpop; olast = s.olast; rer = s.rer;
    rerp = s.rerp; oleft = s.oleft }

(** val set_opay : st -> unw -> st **)

let set_opay s v =
  { evq = s.evq; cnt = s.cnt; towake = s.towake; sel = s.sel; total =
    s.total; ispan = s.ispan; pc = s.pc; cbit = s.cbit; inl = s.inl; kern =
    s.kern; ares = s.ares; jst = s.jst; aw = s.aw; acur = s.acur; kpc =
    s.kpc; earm = s.earm; kw = s.kw; tok = s.tok; nextb = s.nextb; opc =
    s.opc; oco = s.oco; ocbit = s.ocbit; odis = s.odis; ounw = s.ounw; ofin =
    s.ofin; opay = v; oto = s.oto; odl = s.odl; opdl = s.opdl; ocall =
    s.ocall; oalld = s.oalld; ob = s.ob; ocur = s.ocur; oev = s.oev; ojres =
    s.ojres; fi = s.fi; ostash = s.ostash; owk = s.owk; now = s.now; nexta =
    s.nexta; nexte = s.nexte; tops = s.tops; bots = s.bots; botd = s.botd;
    sent = s.sent; byield = s.byield; epush = s.epush; epop = s.epop; ernd =
    s.ernd; dpush = s.dpush; dpop = s.dpop; olast = s.olast; rer = s.rer;
    rerp = s.rerp; oleft = s.oleft }

(** val set_oto : st -> z option -> st **)

let set_oto s v =
  { evq = s.evq; cnt = s.cnt; towake = s.towake; sel = s.sel; total =
    s.total; ispan = s.ispan; pc = s.pc; cbit = s.cbit; inl = s.inl; kern =
    s.kern; ares = s.ares; jst = s.jst; aw = s.aw; acur = s.acur; kpc =
    s.kpc; earm = s.earm; kw = s.kw; tok = s.tok; nextb = s.nextb; opc =
    s.opc; oco = s.oco; ocbit = s.ocbit; odis = s.odis; ounw = s.ounw; ofin =
    s.ofin; opay = s.opay; oto = v; odl = s.odl; opdl = s.opdl; ocall =
    s.ocall; oalld = s.oalld; ob = s.ob; ocur = s.ocur; oev = s.oev; ojres =
    s.ojres; fi = s.fi; ostash = s.ostash; owk = s.owk; now = s.now; nexta =
    s.nexta; nexte = s.nexte; tops = s.tops; bots = s.bots; botd = s.botd;
    sent = s.sent; byield = s.byield; epush = s.epush; epop = s.epop; ernd =
    s.ernd; dpush = s.dpush; dpop = s.dpop; olast = s.olast; rer = s.rer;
    rerp = s.rerp; oleft = s.oleft }

(** val set_odl : st -> z option -> st **)

let set_odl s v =
  { evq = s.evq; cnt = s.cnt; towake = s.towake; sel = s.sel; total =
    s.total; ispan = s.ispan; pc = s.pc; cbit = s.cbit; inl = s.inl; kern =
    s.kern; ares = s.ares; jst = s.jst; aw = s.aw; acur = s.acur; kpc =
    s.kpc; earm = s.earm; kw = s.kw; tok = s.tok; nextb = s.nextb; opc =
    s.opc; oco = s.oco; ocbit = s.ocbit; odis = s.odis; ounw = s.ounw; ofin =
    s.ofin; opay = s.opay; oto = s.oto; odl = v; opdl = s.opdl; ocall =
    s.ocall; oalld = s.oalld; ob = s.ob; ocur = s.ocur; oev = s.oev; ojres =
    s.ojres; fi = s.fi; ostash = s.ostash; owk = s.owk; now = s.now; nexta =
    s.nexta; nexte = s.nexte; tops = s.tops; bots = s.bots; botd = s.botd;
    sent = s.sent; byield = s.byield; epush = s.epush; epop = s.epop; ernd =
    s.ernd; dpush = s.dpush; dpop = s.dpop; olast = s.olast; rer = s.rer;
    rerp = s.rerp; oleft = s.oleft }

(** val set_opdl : st -> z option -> st **)

let set_opdl s v =
  { evq = s.evq; cnt = s.cnt; towake = s.towake; sel = s.sel; total =
    s.total; ispan = s.ispan; pc = s.pc; cbit = s.cbit; inl = s.inl; kern =
    s.kern; ares = s.ares; jst = s.jst; aw = s.aw; acur = s.acur; kpc =
    s.kpc; earm = s.earm; kw = s.kw; tok = s.tok; nextb = s.nextb; opc =
    s.opc; oco = s.oco; ocbit = s.ocbit; odis = s.odis; ounw = s.ounw; ofin =
    s.ofin; opay = s.opay; oto = s.oto; odl = s.odl; opdl = v; ocall =
    s.ocall; oalld = s.oalld; ob = s.ob; ocur = s.ocur; oev = s.oev; ojres =
    s.ojres; fi = s.fi; ostash = s.ostash; owk = s.owk; now = s.now; nexta =
    s.nexta; nexte = s.nexte; tops = s.tops; bots = s.bots; botd = s.botd;
    sent = s.sent; byield = s.byield; epush = s.epush; epop = s.epop; ernd =
    s.ernd; dpush = s.dpush; dpop = s.dpop; olast = s.olast; rer = s.rer;
    rerp = s.rerp; oleft = s.oleft }

(** val set_ocall : st -> z -> st **)

let set_ocall s v =
  { evq = s.evq; cnt = s.cnt; towake = s.towake; sel = s.sel; total =
    s.total; ispan = s.ispan; pc = s.pc; cbit = s.cbit; inl = s.inl; kern =
    s.kern; ares = s.ares; jst = s.jst; aw = s.aw; acur = s.acur; kpc =
    s.kpc; earm = s.earm; kw = s.kw; tok = s.tok; nextb = s.nextb; opc =
    s.opc; oco = s.oco; ocbit = s.ocbit; odis = s.odis; ounw = s.ounw; ofin =
    s.ofin; opay = s.opay; oto = s.oto; odl = s.odl; opdl = s.opdl; ocall =
    v; oalld = s.oalld; ob = s.ob; ocur = s.ocur; oev = s.oev; ojres =
    s.ojres; fi = s.fi; ostash = s.ostash; owk = s.owk; now = s.now; nexta =
    s.nexta; nexte = s.nexte; tops = s.tops; bots = s.bots; botd = s.botd;
    sent = s.sent; byield = s.byield; epush = s.epush; epop = s.epop; ernd =
    s.ernd; dpush = s.dpush; dpop = s.dpop; olast = s.olast; rer = s.rer;
    rerp = s.rerp; oleft = s.oleft }

(** val set_oalld : st -> bool -> st **)

let set_oalld s v =
  { evq = s.evq; cnt = s.cnt; towake = s.towake; sel = s.sel; total =
    s.total; ispan = s.ispan; pc = s.pc; cbit = s.cbit; inl = s.inl; kern =
    s.kern; ares = s.ares; jst = s.jst; aw = s.aw; acur = s.acur; kpc =
    s.kpc; earm = s.earm; kw = s.kw; tok = s.tok; nextb = s.nextb; opc =
    s.opc; oco = s.oco; ocbit = s.ocbit; odis = s.odis; ounw = s.ounw; ofin =
    s.ofin; opay = s.opay; oto = s.oto; odl = s.odl; opdl = s.opdl; ocall =
    s.ocall; oalld = v; ob = s.ob; ocur = s.ocur; oev = s.oev; ojres =
    s.ojres; fi = s.fi; ostash = s.ostash; owk = s.owk; now = s.now; nexta =
    s.nexta; nexte = s.nexte; tops = s.tops; bots = s.bots; botd = s.botd;
    sent = s.sent; byield = s.byield; epush = s.epush; epop = s.epop; ernd =
    s.ernd; dpush = s.dpush; dpop = s.dpop; olast = s.olast; rer = s.rer;
    rerp = s.rerp; oleft = s.oleft }

(** val set_ob : st -> nat -> st **)

let set_ob s v =
  { evq = s.evq; cnt = s.cnt; towake = s.towake; sel = s.sel; total =
    s.total; ispan = s.ispan; pc = s.pc; cbit = s.cbit; inl = s.inl; kern =
    s.kern; ares = s.ares; jst = s.jst; aw = s.aw; acur = s.acur; kpc =
    s.kpc; earm = s.earm; kw = s.kw; tok = s.tok; nextb = s.nextb; opc =
    s.opc; oco = s.oco; ocbit = s.ocbit; odis = s.odis; ounw = s.ounw; ofin =
    s.ofin; opay = s.opay; oto = s.oto; odl = s.odl; opdl = s.opdl; ocall =
    s.ocall; oalld = s.oalld; ob = v; ocur = s.ocur; oev = s.oev; ojres =
    s.ojres; fi = s.fi; ostash = s.ostash; owk = s.owk; now = s.now; nexta =
    s.nexta; nexte = s.nexte; tops = s.tops; bots = s.bots; botd = s.botd;
    sent = s.sent; byield = s.byield; epush = s.epush; epop = s.epop; ernd =
    s.ernd; dpush = s.dpush; dpop = s.dpop; olast = s.olast; rer = s.rer;
    rerp = s.rerp; oleft = s.oleft }

(** val set_ocur : st -> nat -> st **)

let set_ocur s v =
  { evq = s.evq; cnt = s.cnt; towake = s.towake; sel = s.sel; total =
    s.total; ispan = s.ispan; pc = s.pc; cbit = s.cbit; inl = s.inl; kern =
    s.kern; ares = s.ares; jst = s.jst; aw = s.aw; acur = s.acur; kpc =
    s.kpc; earm = s.earm; kw = s.kw; tok = s.tok; nextb = s.nextb; opc =
    s.opc; oco = s.oco; ocbit = s.ocbit; odis = s.odis; ounw = s.ounw; ofin =
    s.ofin; opay = s.opay; oto = s.oto; odl = s.odl; opdl = s.opdl; ocall =
    s.ocall; oalld = s.oalld; ob = s.ob; ocur = v; oev = s.oev; ojres =
    s.ojres; fi = s.fi; ostash = s.ostash; owk = s.owk; now = s.now; nexta =
    s.nexta; nexte = s.nexte; tops = s.tops; bots = s.bots; botd = s.botd;
    sent = s.sent; byield = s.byield; epush = s.epush; epop = s.epop; ernd =
    s.ernd; dpush = s.dpush; dpop = s.dpop; olast = s.olast; rer = s.rer;
    rerp = s.rerp; oleft = s.oleft }

(** val set_oev : st -> nat -> st **)

let set_oev s v =
  { evq = s.evq; cnt = s.cnt; towake = s.towake; sel = s.sel; total =
    s.total; ispan = s.ispan; pc = s.pc; cbit = s.cbit; inl = s.inl; kern =
    s.kern; ares = s.ares; jst = s.jst; aw = s.aw; acur = s.acur; kpc =
    s.kpc; earm = s.earm; kw = s.kw; tok = s.tok; nextb = s.nextb; opc =
    s.opc; oco = s.oco; ocbit = s.ocbit; odis = s.odis; ounw = s.ounw; ofin =
    s.ofin; opay = s.opay; oto = s.oto; odl = s.odl; opdl = s.opdl; ocall =
    s.ocall; oalld = s.oalld; ob = s.ob; ocur = s.ocur; oev = v; ojres =
    s.ojres; fi = s.fi; ostash = s.ostash; owk = s.owk; now = s.now; nexta =
    s.nexta; nexte = s.nexte; tops = s.tops; bots = s.bots; botd = s.botd;
    sent = s.sent; byield = s.byield; epush = s.epush; epop = s.epop; ernd =
    s.ernd; dpush = s.dpush; dpop = s.dpop; olast = s.olast; rer = s.rer;
    rerp = s.rerp; oleft = s.oleft }

(** val set_ojres : st -> aresult -> st **)

let set_ojres s v =
  { evq = s.evq; cnt = s.cnt; towake = s.towake; sel = s.sel; total =
    s.total; ispan = s.ispan; pc = s.pc; cbit = s.cbit; inl = s.inl; kern =
    s.kern; ares = s.ares; jst = s.jst; aw = s.aw; acur = s.acur; kpc =
    s.kpc; earm = s.earm; kw = s.kw; tok = s.tok; nextb = s.nextb; opc =
    s.opc; oco = s.oco; ocbit = s.ocbit; odis = s.odis; ounw = s.ounw; ofin =
    s.ofin; opay = s.opay; oto = s.oto; odl = s.odl; opdl = s.opdl; ocall =
    s.ocall; oalld = s.oalld; ob = s.ob; ocur = s.ocur; oev = s.oev; ojres =
    v; fi = s.fi; ostash = s.ostash; owk = s.owk; now = s.now; nexta =
    s.nexta; nexte = s.nexte; tops = s.tops; bots = s.bots; botd = s.botd;
    sent = s.sent; byield = s.byield; epush = s.epush; epop = s.epop; ernd =
    s.ernd; dpush = s.dpush; dpop = s.dpop; olast = s.olast; rer = s.rer;
    rerp = s.rerp; oleft = s.oleft }

(** val set_fi : st -> nat -> st **)

let set_fi s v =
  { evq = s.evq; cnt = s.cnt; towake = s.towake; sel = s.sel; total =
    s.total; ispan = s.ispan; pc = s.pc; cbit = s.cbit; inl = s.inl; kern =
    s.kern; ares = s.ares; jst = s.jst; aw = s.aw; acur = s.acur; kpc =
    s.kpc; earm = s.earm; kw = s.kw; tok = s.tok; nextb = s.nextb; opc =
    s.opc; oco = s.oco; ocbit = s.ocbit; odis = s.odis; ounw = s.ounw; ofin =
    s.ofin; opay = s.opay; oto = s.oto; odl = s.odl; opdl = s.opdl; ocall =
    s.ocall; oalld = s.oalld; ob = s.ob; ocur = s.ocur; oev = s.oev; ojres =
    s.ojres; fi = v; ostash = s.ostash; owk = s.owk; now = s.now; nexta =
    s.nexta; nexte = s.nexte; tops = s.tops; bots = s.bots; botd = s.botd;
    sent = s.sent; byield = s.byield; epush = s.epush; epop = s.epop; ernd =
    s.ernd; dpush = s.dpush; dpop = s.dpop; olast = s.olast; rer = s.rer;
    rerp = s.rerp; oleft = s.oleft }

(** val set_ostash : st -> qent -> st **)

let set_ostash s v =
  { evq = s.evq; cnt = s.cnt; towake = s.towake; sel = s.sel; total =
    s.total; ispan = s.ispan; pc = s.pc; cbit = s.cbit; inl = s.inl; kern =
    s.kern; ares = s.ares; jst = s.jst; aw = s.aw; acur = s.acur; kpc =
    s.kpc; earm = s.earm; kw = s.kw; tok = s.tok; nextb = s.nextb; opc =
    s.opc; oco = s.oco; ocbit = s.ocbit; odis = s.odis; ounw = s.ounw; ofin =
    s.ofin; opay = s.opay; oto = s.oto; odl = s.odl; opdl = s.opdl; ocall =
    s.ocall; oalld = s.oalld; ob = s.ob; ocur = s.ocur; oev = s.oev; ojres =
    s.ojres; fi = s.fi; ostash = v; owk = s.owk; now = s.now; nexta =
    s.nexta; nexte = s.nexte; tops = s.tops; bots = s.bots; botd = s.botd;
    sent = s.sent; byield = s.byield; epush = s.epush; epop = s.epop; ernd =
    s.ernd; dpush = s.dpush; dpop = s.dpop; olast = s.olast; rer = s.rer;
    rerp = s.rerp; oleft = s.oleft }

(** val set_owk : st -> bool -> st **)

let set_owk s v =
  { evq = s.evq; cnt = s.cnt; towake = s.towake; sel = s.sel; total =
    s.total; ispan = s.ispan; pc = s.pc; cbit = s.cbit; inl = s.inl; kern =
    s.kern; ares = s.ares; jst = s.jst; aw = s.aw; acur = s.acur; kpc =
    s.kpc; earm = s.earm; kw = s.kw; tok = s.tok; nextb = s.nextb; opc =
    s.opc; oco = s.oco; ocbit = s.ocbit; odis = s.odis; ounw = s.ounw; ofin =
    s.ofin; opay = s.opay; oto = s.oto; odl = s.odl; opdl = s.opdl; ocall =
    s.ocall; oalld = s.oalld; ob = s.ob; ocur = s.ocur; oev = s.oev; ojres =
    s.ojres; fi = s.fi; ostash = s.ostash; owk = v; now = s.now; nexta =
    s.nexta; nexte = s.nexte; tops = s.tops; bots = s.bots; botd = s.botd;
    sent = s.sent; byield = s.byield; epush = s.epush; epop = s.epop; ernd =
    s.ernd; dpush = s.dpush; dpop = s.dpop; olast = s.olast; rer = s.rer;
    rerp = s.rerp; oleft = s.oleft }

(** val set_now : st -> z -> st **)

let set_now s v =
  { evq = s.evq; cnt = s.cnt; towake = s.towake; sel = s.sel; total =
    s.total; ispan = s.ispan; pc = s.pc; cbit = s.cbit; inl = s.inl; kern =
    s.kern; ares = s.ares; jst = s.jst; aw = s.aw; acur = s.acur; kpc =
    s.kpc; earm = s.earm; kw = s.kw; tok = s.tok; nextb = s.nextb; opc =
    s.opc; oco = s.oco; ocbit = s.ocbit; odis = s.odis; ounw = s.ounw; ofin =
    s.ofin; opay = s.opay; oto = s.oto; odl = s.odl; opdl = s.opdl; ocall =
    s.ocall; oalld = s.oalld; ob = s.ob; ocur = s.ocur; oev = s.oev; ojres =
    s.ojres; fi = s.fi; ostash = s.ostash; owk = s.owk; now = v; nexta =
    s.nexta; nexte = s.nexte; tops = s.tops; bots = s.bots; botd = s.botd;
    sent = s.sent; byield = s.byield; epush = s.epush; epop = s.epop; ernd =
    s.ernd; dpush = s.dpush; dpop = s.dpop; olast = s.olast; rer = s.rer;
    rerp = s.rerp; oleft = s.oleft }

(** val set_nexta : st -> nat -> st **)

let set_nexta s v =
  { evq = s.evq; cnt = s.cnt; towake = s.towake; sel = s.sel; total =
    s.total; ispan = s.ispan; pc = s.pc; cbit = s.cbit; inl = s.inl; kern =
    s.kern; ares = s.ares; jst = s.jst; aw = s.aw; acur = s.acur; kpc =
    s.kpc; earm = s.earm; kw = s.kw; tok = s.tok; nextb = s.nextb; opc =
    s.opc; oco = s.oco; ocbit = s.ocbit; odis = s.odis; ounw = s.ounw; ofin =
    s.ofin; opay = s.opay; oto = s.oto; odl = s.odl; opdl = s.opdl; ocall =
    s.ocall; oalld = s.oalld; ob = s.ob; ocur = s.ocur; oev = s.oev; ojres =
    s.ojres; fi = s.fi; ostash = s.ostash; owk = s.owk; now = s.now; nexta =
    v; nexte = s.nexte; tops = s.tops; bots = s.bots; botd = s.botd; sent =
    s.sent; byield = s.byield; epush = s.epush; epop = s.epop; ernd = s.ernd;
    dpush = s.dpush; dpop = s.dpop; olast = s.olast; rer = s.rer; rerp =
    s.rerp; oleft = s.oleft }

(** val set_nexte : st -> nat -> st **)

let set_nexte s v =
  { evq = s.evq; cnt = s.cnt; towake = s.towake; sel = s.sel; total =
    s.total; ispan = s.ispan; pc = s.pc; cbit = s.cbit; inl = s.inl; kern =
    s.kern; ares = s.ares; jst = s.jst; aw = s.aw; acur = s.acur; kpc =
    s.kpc; earm = s.earm; kw = s.kw; tok = s.tok; nextb = s.nextb; opc =
    s.opc; oco = s.oco; ocbit = s.ocbit; odis = s.odis; ounw = s.ounw; ofin =
    s.ofin; opay = s.opay; oto = s.oto; odl = s.odl; opdl = s.opdl; ocall =
    s.ocall; oalld = s.oalld; ob = s.ob; ocur = s.ocur; oev = s.oev; ojres =
    s.ojres; fi = s.fi; ostash = s.ostash; owk = s.owk; now = s.now; nexta =
    s.nexta; nexte = v; tops = s.tops; bots = s.bots; botd = s.botd; sent =
    s.sent; byield = s.byield; epush = s.epush; epop = s.epop; ernd = s.ernd;
    dpush = s.dpush; dpop = s.dpop; olast = s.olast; rer = s.rer; rerp =
    s.rerp; oleft = s.oleft }

(** val set_tops : st -> (nat -> nat) -> st **)

let set_tops s v =
  { evq = s.evq; cnt = s.cnt; towake = s.towake; sel = s.sel; total =
    s.total; ispan = s.ispan; pc = s.pc; cbit = s.cbit; inl = s.inl; kern =
    s.kern; ares = s.ares; jst = s.jst; aw = s.aw; acur = s.acur; kpc =
    s.kpc; earm = s.earm; kw = s.kw; tok = s.tok; nextb = s.nextb; opc =
    s.opc; oco = s.oco; ocbit = s.ocbit; odis = s.odis; ounw = s.ounw; ofin =
    s.ofin; opay = s.opay; oto = s.oto; odl = s.odl; opdl = s.opdl; ocall =
    s.ocall; oalld = s.oalld; ob = s.ob; ocur = s.ocur; oev = s.oev; ojres =
    s.ojres; fi = s.fi; ostash = s.ostash; owk = s.owk; now = s.now; nexta =
    s.nexta; nexte = s.nexte; tops = v; bots = s.bots; botd = s.botd; sent =
    s.sent; byield = s.byield; epush = s.epush; epop = s.epop; ernd = s.ernd;
    dpush = s.dpush; dpop = s.dpop; olast = s.olast; rer = s.rer; rerp =
    s.rerp; oleft = s.oleft }

(** val set_bots : st -> (nat -> nat) -> st **)

let set_bots s v =
  { evq = s.evq; cnt = s.cnt; towake = s.towake; sel = s.sel; total =
    s.total; ispan = s.ispan; pc = s.pc; cbit = s.cbit; inl = s.inl; kern =
    s.kern; ares = s.ares; jst = s.jst; aw = s.aw; acur = s.acur; kpc =
    s.kpc; earm = s.earm; kw = s.kw; tok = s.tok; nextb = s.nextb; opc =
    s.opc; oco = s.oco; ocbit = s.ocbit; odis = s.odis; ounw = s.ounw; ofin =
    s.ofin; opay = s.opay; oto = s.oto; odl = s.odl; opdl = s.opdl; ocall =
    s.ocall; oalld = s.oalld; ob = s.ob; ocur = s.ocur; oev = s.oev; ojres =
    s.ojres; fi = s.fi; ostash = s.ostash; owk = s.owk; now = s.now; nexta =
    s.nexta; nexte = s.nexte; tops = s.tops; bots = v; botd = s.botd; sent =
    s.sent; byield = s.byield; epush = s.epush; epop = s.epop; ernd = s.ernd;
    dpush = s.dpush; dpop = s.dpop; olast = s.olast; rer = s.rer; rerp =
    s.rerp; oleft = s.oleft }

(** val set_botd : st -> (nat -> nat) -> st **)

let set_botd s v =
  { evq = s.evq; cnt = s.cnt; towake = s.towake; sel = s.sel; total =
    s.total; ispan = s.ispan; pc = s.pc; cbit = s.cbit; inl = s.inl; kern =
    s.kern; ares = s.ares; jst = s.jst; aw = s.aw; acur = s.acur; kpc =
    s.kpc; earm = s.earm; kw = s.kw; tok = s.tok; nextb = s.nextb; opc =
    s.opc; oco = s.oco; ocbit = s.ocbit; odis = s.odis; ounw = s.ounw; ofin =
    s.ofin; opay = s.opay; oto = s.oto; odl = s.odl; opdl = s.opdl; ocall =
    s.ocall; oalld = s.oalld; ob = s.ob; ocur = s.ocur; oev = s.oev; ojres =
    s.ojres; fi = s.fi; ostash = s.ostash; owk = s.owk; now = s.now; nexta =
    s.nexta; nexte = s.nexte; tops = s.tops; bots = s.bots; botd = v; sent =
    s.sent; byield = s.byield; epush = s.epush; epop = s.epop; ernd = s.ernd;
    dpush = s.dpush; dpop = s.dpop; olast = s.olast; rer = s.rer; rerp =
    s.rerp; oleft = s.oleft }

(** val set_sent : st -> (nat -> nat) -> st **)

let set_sent s v =
  { evq = s.evq; cnt = s.cnt; towake = s.towake; sel = s.sel; total =
    s.total; ispan = s.ispan; pc = s.pc; cbit = s.cbit; inl = s.inl; kern =
    s.kern; ares = s.ares; jst = s.jst; aw = s.aw; acur = s.acur; kpc =
    s.kpc; earm = s.earm; kw = s.kw; tok = s.tok; nextb = s.nextb; opc =
    s.opc; oco = s.oco; ocbit = s.ocbit; odis = s.odis; ounw = s.ounw; ofin =
    s.ofin; opay = s.opay; oto = s.oto; odl = s.odl; opdl = s.opdl; ocall =
    s.ocall; oalld = s.oalld; ob = s.ob; ocur = s.ocur; oev = s.oev; ojres =
    s.ojres; fi = s.fi; ostash = s.ostash; owk = s.owk; now = s.now; nexta =
    s.nexta; nexte = s.nexte; tops = s.tops; bots = s.bots; botd = s.botd;
    sent = v; byield = s.byield; epush = s.epush; epop = s.epop; ernd =
    s.ernd; dpush = s.dpush; dpop = s.dpop; olast = s.olast; rer = s.rer;
    rerp = s.rerp; oleft = s.oleft }

(** val set_byield : st -> (nat -> bool) -> st **)

let set_byield s v =
  { evq = s.evq; cnt = s.cnt; towake = s.towake; sel = s.sel; total =
    s.total; ispan = s.ispan; pc = s.pc; cbit = s.cbit; inl = s.inl; kern =
    s.kern; ares = s.ares; jst = s.jst; aw = s.aw; acur = s.acur; kpc =
    s.kpc; earm = s.earm; kw = s.kw; tok = s.tok; nextb = s.nextb; opc =
    s.opc; oco = s.oco; ocbit = s.ocbit; odis = s.odis; ounw = s.ounw; ofin =
    s.ofin; opay = s.opay; oto = s.oto; odl = s.odl; opdl = s.opdl; ocall =
    s.ocall; oalld = s.oalld; ob = s.ob; ocur = s.ocur; oev = s.oev; ojres =
    s.ojres; fi = s.fi; ostash = s.ostash; owk = s.owk; now = s.now; nexta =
    s.nexta; nexte = s.nexte; tops = s.tops; bots = s.bots; botd = s.botd;
    sent = s.sent; byield = v; epush = s.epush; epop = s.epop; ernd = s.ernd;
    dpush = s.dpush; dpop = s.dpop; olast = s.olast; rer = s.rer; rerp =
    s.rerp; oleft = s.oleft }

(** val set_epush : st -> (nat -> nat) -> st **)

let set_epush s v =
  { evq = s.evq; cnt = s.cnt; towake = s.towake; sel = s.sel; total =
    s.total; ispan = s.ispan; pc = s.pc; cbit = s.cbit; inl = s.inl; kern =
    s.kern; ares = s.ares; jst = s.jst; aw = s.aw; acur = s.acur; kpc =
    s.kpc; earm = s.earm; kw = s.kw; tok = s.tok; nextb = s.nextb; opc =
    s.opc; oco = s.oco; ocbit = s.ocbit; odis = s.odis; ounw = s.ounw; ofin =
    s.ofin; opay = s.opay; oto = s.oto; odl = s.odl; opdl = s.opdl; ocall =
    s.ocall; oalld = s.oalld; ob = s.ob; ocur = s.ocur; oev = s.oev; ojres =
    s.ojres; fi = s.fi; ostash = s.ostash; owk = s.owk; now = s.now; nexta =
    s.nexta; nexte = s.nexte; tops = s.tops; bots = s.bots; botd = s.botd;
    sent = s.sent; byield = s.byield; epush = v; epop = s.epop; ernd =
    s.ernd; dpush = s.dpush; dpop = s.dpop; olast = s.olast; rer = s.rer;
    rerp = s.rerp; oleft = s.oleft }

(** val set_epop : st -> (nat -> nat) -> st **)

let set_epop s v =
  { evq = s.evq; cnt = s.cnt; towake = s.towake; sel = s.sel; total =
    s.total; ispan = s.ispan; pc = s.pc; cbit = s.cbit; inl = s.inl; kern =
    s.kern; ares = s.ares; jst = s.jst; aw = s.aw; acur = s.acur; kpc =
    s.kpc; earm = s.earm; kw = s.kw; tok = s.tok; nextb = s.nextb; opc =
    s.opc; oco = s.oco; ocbit = s.ocbit; odis = s.odis; ounw = s.ounw; ofin =
    s.ofin; opay = s.opay; oto = s.oto; odl = s.odl; opdl = s.opdl; ocall =
    s.ocall; oalld = s.oalld; ob = s.ob; ocur = s.ocur; oev = s.oev; ojres =
    s.ojres; fi = s.fi; ostash = s.ostash; owk = s.owk; now = s.now; nexta =
    s.nexta; nexte = s.nexte; tops = s.tops; bots = s.bots; botd = s.botd;
    sent = s.sent; byield = s.byield; epush = s.epush; epop = v; ernd =
    s.ernd; dpush = s.dpush; dpop = s.dpop; olast = s.olast; rer = s.rer;
    rerp = s.rerp; oleft = s.oleft }

(** val set_ernd : st -> (nat -> nat) -> st **)

let set_ernd s v =
  { evq = s.evq; cnt = s.cnt; towake = s.towake; sel = s.sel; total =
    s.total; ispan = s.ispan; pc = s.pc; cbit = s.cbit; inl = s.inl; kern =
    s.kern; ares = s.ares; jst = s.jst; aw = s.aw; acur = s.acur; kpc =
    s.kpc; earm = s.earm; kw = s.kw; tok = s.tok; nextb = s.nextb; opc =
    s.opc; oco = s.oco; ocbit = s.ocbit; odis = s.odis; ounw = s.ounw; ofin =
    s.ofin; opay = s.opay; oto = s.oto; odl = s.odl; opdl = s.opdl; ocall =
    s.ocall; oalld = s.oalld; ob = s.ob; ocur = s.ocur; oev = s.oev; ojres =
    s.ojres; fi = s.fi; ostash = s.ostash; owk = s.owk; now = s.now; nexta =
    s.nexta; nexte = s.nexte; tops = s.tops; bots = s.bots; botd = s.botd;
    sent = s.sent; byield = s.byield; epush = s.epush; epop = s.epop; ernd =
    v; dpush = s.dpush; dpop = s.dpop; olast = s.olast; rer = s.rer; rerp =
    s.rerp; oleft = s.oleft }

(** val set_dpush : st -> (nat -> nat) -> st **)

let set_dpush s v =
  { evq = s.evq; cnt = s.cnt; towake = s.towake; sel = s.sel; total =
    s.total; ispan = s.ispan; pc = s.pc; cbit = s.cbit; inl = s.inl; kern =
    s.kern; ares = s.ares; jst = s.jst; aw = s.aw; acur = s.acur; kpc =
    s.kpc; earm = s.earm; kw = s.kw; tok = s.tok; nextb = s.nextb; opc =
    s.opc; oco = s.oco; ocbit = s.ocbit; odis = s.odis; ounw = s.ounw; ofin =
    s.ofin; opay = s.opay; oto = s.oto; odl = s.odl; opdl = s.opdl; ocall =
    s.ocall; oalld = s.oalld; ob = s.ob; ocur = s.ocur; oev = s.oev; ojres =
    s.ojres; fi = s.fi; ostash = s.ostash; owk = s.owk; now = s.now; nexta =
    s.nexta; nexte = s.nexte; tops = s.tops; bots = s.bots; botd = s.botd;
    sent = s.sent; byield = s.byield; epush = s.epush; epop = s.epop; ernd =
    s.ernd; dpush = v; dpop = s.dpop; olast = s.olast; rer = s.rer; rerp =
    s.rerp; oleft = s.oleft }

(** val set_dpop : st -> (nat -> nat) -> st **)

let set_dpop s v =
  { evq = s.evq; cnt = s.cnt; towake = s.towake; sel = s.sel; total =
    s.total; ispan = s.ispan; pc = s.pc; cbit = s.cbit; inl = s.inl; kern =
    s.kern; ares = s.ares; jst = s.jst; aw = s.aw; acur = s.acur; kpc =
    s.kpc; earm = s.earm; kw = s.kw; tok = s.tok; nextb = s.nextb; opc =
    s.opc; oco = s.oco; ocbit = s.ocbit; odis = s.odis; ounw = s.ounw; ofin =
    s.ofin; opay = s.opay; oto = s.oto; odl = s.odl; opdl = s.opdl; ocall =
    s.ocall; oalld = s.oalld; ob = s.ob; ocur = s.ocur; oev = s.oev; ojres =
    s.ojres; fi = s.fi; ostash = s.ostash; owk = s.owk; now = s.now; nexta =
    s.nexta; nexte = s.nexte; tops = s.tops; bots = s.bots; botd = s.botd;
    sent = s.sent; byield = s.byield; epush = s.epush; epop = s.epop; ernd =
    s.ernd; dpush = s.dpush; dpop = v; olast = s.olast; rer = s.rer; rerp =
    s.rerp; oleft = s.oleft }

(** val set_olast : st -> lastret -> st **)

let set_olast s v =
  { evq = s.evq; cnt = s.cnt; towake = s.towake; sel = s.sel; total =
    s.total; ispan = s.ispan; pc = s.pc; cbit = s.cbit; inl = s.inl; kern =
    s.kern; ares = s.ares; jst = s.jst; aw = s.aw; acur = s.acur; kpc =
    s.kpc; earm = s.earm; kw = s.kw; tok = s.tok; nextb = s.nextb; opc =
    s.opc; oco = s.oco; ocbit = s.ocbit; odis = s.odis; ounw = s.ounw; ofin =
    s.ofin; opay = s.opay; oto = s.oto; odl = s.odl; opdl = s.opdl; ocall =
    s.ocall; oalld = s.oalld; ob = s.ob; ocur = s.ocur; oev = s.oev; ojres =
    s.ojres; fi = s.fi; ostash = s.ostash; owk = s.owk; now = s.now; nexta =
    s.nexta; nexte = s.nexte; tops = s.tops; bots = s.bots; botd = s.botd;
    sent = s.sent; byield = s.byield; epush = s.epush; epop = s.epop; ernd =
    s.ernd; dpush = s.dpush; dpop = s.dpop; olast = v; rer = s.rer; rerp =
    s.rerp; oleft = s.oleft }

(** val set_rer : st -> nat -> st **)

let set_rer s v =
  { evq = s.evq; cnt = s.cnt; towake = s.towake; sel = s.sel; total =
    s.total; ispan = s.ispan; pc = s.pc; cbit = s.cbit; inl = s.inl; kern =
    s.kern; ares = s.ares; jst = s.jst; aw = s.aw; acur = s.acur; kpc =
    s.kpc; earm = s.earm; kw = s.kw; tok = s.tok; nextb = s.nextb; opc =
    s.opc; oco = s.oco; ocbit = s.ocbit; odis = s.odis; ounw = s.ounw; ofin =
    s.ofin; opay = s.opay; oto = s.oto; odl = s.odl; opdl = s.opdl; ocall =
    s.ocall; oalld = s.oalld; ob = s.ob; ocur = s.ocur; oev = s.oev; ojres =
    s.ojres; fi = s.fi; ostash = s.ostash; owk = s.owk; now = s.now; nexta =
    s.nexta; nexte = s.nexte; tops = s.tops; bots = s.bots; botd = s.botd;
    sent = s.sent; byield = s.byield; epush = s.epush; epop = s.epop; ernd =
    s.ernd; dpush = s.dpush; dpop = s.dpop; olast = s.olast; rer = v; rerp =
    s.rerp; oleft = s.oleft }

(** val set_rerp : st -> nat option -> st **)

let set_rerp s v =
  { evq = s.evq; cnt = s.cnt; towake = s.towake; sel = s.sel; total =
    s.total; ispan = s.ispan; pc = s.pc; cbit = s.cbit; inl = s.inl; kern =
    s.kern; ares = s.ares; jst = s.jst; aw = s.aw; acur = s.acur; kpc =
    s.kpc; earm = s.earm; kw = s.kw; tok = s.tok; nextb = s.nextb; opc =
    s.opc; oco = s.oco; ocbit = s.ocbit; odis = s.odis; ounw = s.ounw; ofin =
    s.ofin; opay = s.opay; oto = s.oto; odl = s.odl; opdl = s.opdl; ocall =
    s.ocall; oalld = s.oalld; ob = s.ob; ocur = s.ocur; oev = s.oev; ojres =
    s.ojres; fi = s.fi; ostash = s.ostash; owk = s.owk; now = s.now; nexta =
    s.nexta; nexte = s.nexte; tops = s.tops; bots = s.bots; botd = s.botd;
    sent = s.sent; byield = s.byield; epush = s.epush; epop = s.epop; ernd =
    s.ernd; dpush = s.dpush; dpop = s.dpop; olast = s.olast; rer = s.rer;
    rerp = v; oleft = s.oleft }

(** val set_oleft : st -> bool -> st **)

let set_oleft s v =
  { evq = s.evq; cnt = s.cnt; towake = s.towake; sel = s.sel; total =
    s.total; ispan = s.ispan; pc = s.pc; cbit = s.cbit; inl = s.inl; kern =
    s.kern; ares = s.ares; jst = s.jst; aw = s.aw; acur = s.acur; kpc =
    s.kpc; earm = s.earm; kw = s.kw; tok = s.tok; nextb = s.nextb; opc =
    s.opc; oco = s.oco; ocbit = s.ocbit; odis = s.odis; ounw = s.ounw; ofin =
    s.ofin; opay = s.opay; oto = s.oto; odl = s.odl; opdl = s.opdl; ocall =
    s.ocall; oalld = s.oalld; ob = s.ob; ocur = s.ocur; oev = s.oev; ojres =
    s.ojres; fi = s.fi; ostash = s.ostash; owk = s.owk; now = s.now; nexta =
    s.nexta; nexte = s.nexte; tops = s.tops; bots = s.bots; botd = s.botd;
    sent = s.sent; byield = s.byield; epush = s.epush; epop = s.epop; ernd =
    s.ernd; dpush = s.dpush; dpop = s.dpop; olast = s.olast; rer = s.rer;
    rerp = s.rerp; oleft = v }

(** val upd : (nat -> 'a1) -> nat -> 'a1 -> nat -> 'a1 **)

let upd f i v j =
  if Nat.eqb j i then v else f j

type action =
| Start of bool
| OAdd
| OPoll of z option
| ORemove of nat
| OClose
| OPanicA of nat
| OCancelled
| OCatch
| OStep
| CancelOwner
| Tick of z
| ASend of nat
| ANext of nat
| AFinish of nat
| APanic of nat * nat
| ACancelled of nat
| AYield of nat
| AStep of nat
| KStep of nat

(** val is_onone : opcT -> bool **)

let is_onone = function
| ONone -> true
| _ -> false

(** val is_p5w : opcT -> bool **)

let is_p5w = function
| P5w -> true
| _ -> false

(** val cancel_due : st -> bool **)

let cancel_due s =
  (&&) ((&&) s.oco s.ocbit) (Nat.eqb s.odis O)

(** val zle_opt : z option -> z -> bool **)

let zle_opt d n =
  match d with
  | Some t -> Z.leb t n
  | None -> false

(** val zadd_opt : z -> z option -> z option **)

let zadd_opt n = function
| Some t -> Some (Z.add n t)
| None -> None

(** val to_ok : z option -> bool **)

let to_ok = function
| Some t -> Z.leb Z0 t
| None -> true

(** val first_unw : unw -> unw -> unw **)

let first_unw x y =
  match x with
  | UNone -> y
  | _ -> x

(** val user_pc : apc -> bool **)

let user_pc = function
| ATop -> true
| ABot -> true
| _ -> false

(** val is_abot : apc -> bool **)

let is_abot = function
| ABot -> true
| _ -> false

(** val is_asusp : apc -> bool **)

let is_asusp = function
| ASusp -> true
| _ -> false

(** val wpc : st -> nat -> apc -> st **)

let wpc s a p =
  set_pc s (upd s.pc a p)

(** val wkpc : st -> nat -> kpcT -> st **)

let wkpc s e p =
  set_kpc s (upd s.kpc e p)

(** val raise_poll : st -> unw -> st **)

let raise_poll s u =
  if Nat.eqb s.ofin O
  then set_opc (set_olast (set_ounw s u) LRaised) OUnw
  else set_opc (set_opay s (first_unw s.opay u)) P1

(** val ret_ok : st -> st **)

let ret_ok s =
  if Nat.eqb s.ofin O
  then set_opc (set_olast s (LOk s.oev)) OBody
  else set_opc s P1

(** val ret_finished : st -> st **)

let ret_finished s =
  if Nat.eqb s.ofin O
  then set_opc (set_olast s LFinished) OBody
  else set_opc s (if s.oco then FE0 else FE1)

(** val ret_timeout : st -> st **)

let ret_timeout s =
  if Nat.eqb s.ofin O
  then set_opc (set_olast s LTimeout) OBody
  else set_opc s P1

(** val take_handle : st -> nat -> st **)

let take_handle s a =
  if s.sel a
  then set_opc (set_sel s (upd s.sel a false)) (if s.oco then C0 else CJ)
  else set_opc s OBug

(** val handle_ev : cfg -> st -> qent -> st **)

let handle_ev cf s = function
| ENormal e ->
  let a = s.earm e in
  let s0 = set_epop s (upd s.epop e (S (s.epop e))) in
  if is_asusp (s0.pc a)
  then let s1 = set_bots s0 (upd s0.bots a (S (s0.bots a))) in
       let s2 = set_byield s1 (upd s1.byield a false) in
       let s3 = set_inl s2 (upd s2.inl a true) in
       let s4 = set_ocur s3 a in
       let s5 = set_oev s4 e in set_opc (wpc s5 a ABot) PRun
  else set_opc s0 OBug
| EDone a ->
  let s0 = set_dpop s (upd s.dpop a (S (s.dpop a))) in
  let s1 = set_ocur s0 a in
  if cf.c_joinalways then take_handle s1 a else set_opc s1 Cpre

(** val start_drain : st -> st **)

let start_drain s =
  set_opc (set_odl (set_oto s None) None) P1

(** val arm_end : st -> nat -> aresult -> st **)

let arm_end s a r =
  let s0 =
    if is_abot (s.pc a) then set_botd s (upd s.botd a (S (s.botd a))) else s
  in
  wpc (set_ares s0 (upd s0.ares a r)) a AD0

(** val ostep : cfg -> st -> st option **)

let ostep cf s =
  match s.opc with
  | OA2 -> Some (set_opc (set_cnt s (Z.add s.cnt (Zpos XH))) OA3)
  | OA3 ->
    Some
      (set_opc (set_total (set_sel s (upd s.sel s.total true)) (S s.total))
        OBody)
  | P1 ->
    if cf.c_cntfirst
    then Some (set_opc (set_oalld s (Z.eqb s.cnt Z0)) P2)
    else Some (set_opc s P2)
  | P2 ->
    (match s.evq with
     | [] ->
       if cf.c_cntfirst
       then if s.oalld then Some (ret_finished s) else Some (set_opc s P3)
       else Some (set_opc s P2b)
     | ev :: r -> Some (handle_ev cf (set_evq s r) ev))
  | P2b ->
    if Z.eqb s.cnt Z0 then Some (ret_finished s) else Some (set_opc s P3)
  | P3 ->
    let b = s.nextb in
    Some (set_opc (set_towake (set_nextb (set_ob s b) (S b)) (Some b)) P4)
  | P4 ->
    (match s.evq with
     | [] -> Some (set_opc s P5)
     | ev :: r -> Some (set_opc (set_ostash (set_evq s r) ev) P4t))
  | P4t -> Some (handle_ev cf (set_towake s None) s.ostash)
  | P5 ->
    if s.tok s.ob
    then Some (set_opc (set_tok s (upd s.tok s.ob false)) P6)
    else if cancel_due s
         then Some (raise_poll s UCancel)
         else Some (set_opc (set_opdl s (zadd_opt s.now s.oto)) P5w)
  | P5w ->
    if (||) ((||) ((||) (s.tok s.ob) (zle_opt s.opdl s.now)) (cancel_due s))
         s.owk
    then let s0 = set_owk (set_tok s (upd s.tok s.ob false)) false in
         if cancel_due s0
         then Some (raise_poll s0 UCancel)
         else Some (set_opc s0 P6)
    else None
  | P6 ->
    if zle_opt s.odl s.now then Some (ret_timeout s) else Some (set_opc s P1)
  | PRun -> if s.inl s.ocur then None else Some (ret_ok s)
  | Cpre ->
    if s.ispan then Some (set_opc s P1) else Some (take_handle s s.ocur)
  | C0 -> Some (set_opc (set_odis s (S s.odis)) CJ)
  | CJ ->
    if s.jst s.ocur
    then None
    else Some
           (set_opc (set_ojres s (s.ares s.ocur)) (if s.oco then C1 else C2))
  | C1 -> Some (set_opc (set_odis s (sub s.odis (S O))) C2)
  | C2 ->
    if (&&) cf.c_joinalways s.ispan
    then Some (set_opc s P1)
    else (match s.ojres with
          | RPanic _ -> Some (set_opc s C3)
          | _ -> Some (set_opc s P1))
  | C3 ->
    (match s.ojres with
     | RPanic p ->
       Some
         (raise_poll
           (set_rerp (set_rer (set_ispan s true) (S s.rer)) (Some p)) (UPanic
           p))
     | _ -> None)
  | OUnw ->
    Some (set_opc (set_opay (set_fi (set_ofin s (S (S O))) O) UNone) FC0)
  | FC0 ->
    if Nat.ltb s.fi s.total
    then if s.sel s.fi
         then if s.jst s.fi
              then Some (set_opc s FC1)
              else Some (set_fi s (S s.fi))
         else Some (set_fi s (S s.fi))
    else Some (if s.oco then set_opc s FD0 else start_drain s)
  | FC1 ->
    Some (set_opc (set_fi (set_cbit s (upd s.cbit s.fi true)) (S s.fi)) FC0)
  | FD0 -> Some (start_drain (set_odis s (S s.odis)))
  | FE0 -> Some (set_opc (set_odis s (sub s.odis (S O))) FE1)
  | FE1 ->
    (match s.ofin with
     | O -> Some (set_opc (set_oleft s true) OExit)
     | S n ->
       (match n with
        | O ->
          let s0 = set_ounw s (first_unw s.opay s.ounw) in
          Some
          (set_opc (set_opay (set_fi (set_ofin s0 (S (S O))) O) UNone) FC0)
        | S _ -> Some (set_opc (set_oleft s true) OExit)))
  | _ -> None

(** val astep : cfg -> st -> nat -> st option **)

let astep cf s a =
  match s.pc a with
  | AS0 -> if s.cbit a then Some (arm_end s a RCancel) else Some (wpc s a AS1)
  | AS1 ->
    if s.cbit a
    then if cf.c_sendraise
         then Some (arm_end s a RCancel)
         else Some (wpc (set_bots s (upd s.bots a (S (s.bots a)))) a ABot)
    else let e = s.nexte in
         let s0 = set_kpc s (upd s.kpc e K0) in
         let s1 = set_earm s0 (upd s0.earm e a) in
         let s2 = set_ernd s1 (upd s1.ernd e (s1.tops a)) in
         let s3 = set_nexte s2 (S e) in
         let s4 = set_sent s3 (upd s3.sent a (S (s3.sent a))) in
         let s5 = set_acur s4 (upd s4.acur a e) in
         let s6 = set_inl s5 (upd s5.inl a false) in Some (wpc s6 a ASusp)
  | AD0 ->
    if (&&) cf.c_kwait (negb (Nat.eqb (s.kern a) O))
    then Some (set_inl s (upd s.inl a false))
    else Some (wpc s a AD1)
  | AD1 ->
    Some
      (wpc
        (set_dpush (set_evq s (app s.evq ((EDone a) :: [])))
          (upd s.dpush a (S (s.dpush a)))) a AD2)
  | AD2 -> Some (wpc (set_cnt s (Z.sub s.cnt (Zpos XH))) a AD3)
  | AD3 ->
    (match s.towake with
     | Some b -> Some (wpc (set_aw (set_towake s None) (upd s.aw a b)) a AD4)
     | None -> Some (wpc s a AF1))
  | AD4 -> Some (wpc (set_tok s (upd s.tok (s.aw a) true)) a AF1)
  | AF1 ->
    Some
      (wpc (set_inl (set_jst s (upd s.jst a false)) (upd s.inl a false)) a
        ADone)
  | _ -> None

(** val kstep : st -> nat -> st option **)

let kstep s e =
  let a = s.earm e in
  (match s.kpc e with
   | K0 -> Some (wkpc (set_kern s (upd s.kern a (S (s.kern a)))) e K1)
   | K1 ->
     Some
       (wkpc
         (set_epush (set_evq s (app s.evq ((ENormal e) :: [])))
           (upd s.epush e (S (s.epush e)))) e K2)
   | K2 ->
     (match s.towake with
      | Some b -> Some (wkpc (set_kw (set_towake s None) (upd s.kw e b)) e K3)
      | None -> Some (wkpc s e K4))
   | K3 -> Some (wkpc (set_tok s (upd s.tok (s.kw e) true)) e K4)
   | K4 ->
     Some (wkpc (set_kern s (upd s.kern a (sub (s.kern a) (S O)))) e KDone)
   | _ -> None)

(** val step : cfg -> st -> action -> st option **)

let step cf s = function
| Start co ->
  (match s.opc with
   | ONone -> Some (set_opc (set_oco s co) OBody)
   | _ -> None)
| OAdd ->
  (match s.opc with
   | OBody ->
     let n = s.nexta in Some (set_opc (set_nexta (wpc s n ATop) (S n)) OA2)
   | _ -> None)
| OPoll to0 ->
  (match s.opc with
   | OBody ->
     if to_ok to0
     then Some
            (set_opc
              (set_odl (set_ocall (set_oto s to0) s.now) (zadd_opt s.now to0))
              P1)
     else None
   | _ -> None)
| ORemove a ->
  (match s.opc with
   | OBody ->
     if Nat.ltb a s.total then Some (set_cbit s (upd s.cbit a true)) else None
   | _ -> None)
| OClose ->
  (match s.opc with
   | OBody ->
     Some (set_opc (set_opay (set_fi (set_ofin s (S O)) O) UNone) FC0)
   | _ -> None)
| OPanicA p ->
  (match s.opc with
   | OBody -> Some (set_opc (set_ounw s (UPanic p)) OUnw)
   | _ -> None)
| OCancelled ->
  (match s.opc with
   | OBody ->
     if cancel_due s then Some (set_opc (set_ounw s UCancel) OUnw) else None
   | _ -> None)
| OCatch ->
  (match s.opc with
   | OUnw -> Some (set_opc (set_ounw s UNone) OBody)
   | _ -> None)
| OStep -> ostep cf s
| CancelOwner ->
  if (&&) s.oco (negb (is_onone s.opc))
  then Some (set_owk (set_ocbit s true) ((||) s.owk (is_p5w s.opc)))
  else None
| Tick t -> if Z.leb s.now t then Some (set_now s t) else None
| ASend a ->
  (match s.pc a with
   | ATop -> Some (wpc (set_tops s (upd s.tops a (S (s.tops a)))) a AS0)
   | _ -> None)
| ANext a ->
  (match s.pc a with
   | ABot -> Some (wpc (set_botd s (upd s.botd a (S (s.botd a)))) a ATop)
   | _ -> None)
| AFinish a -> if user_pc (s.pc a) then Some (arm_end s a ROk) else None
| APanic (a, p) ->
  if user_pc (s.pc a) then Some (arm_end s a (RPanic p)) else None
| ACancelled a ->
  if (&&) (user_pc (s.pc a)) (s.cbit a)
  then Some (arm_end s a RCancel)
  else None
| AYield a ->
  if (&&) (user_pc (s.pc a)) (s.inl a)
  then Some
         (set_byield (set_inl s (upd s.inl a false))
           (upd s.byield a ((||) (is_abot (s.pc a)) (s.byield a))))
  else None
| AStep a -> astep cf s a
| KStep e -> kstep s e

(** val init : st **)

let init =
  { evq = []; cnt = Z0; towake = None; sel = (fun _ -> false); total = O;
    ispan = false; pc = (fun _ -> ANone); cbit = (fun _ -> false); inl =
    (fun _ -> false); kern = (fun _ -> O); ares = (fun _ -> RRun); jst =
    (fun _ -> true); aw = (fun _ -> O); acur = (fun _ -> O); kpc = (fun _ ->
    KNone); earm = (fun _ -> O); kw = (fun _ -> O); tok = (fun _ -> false);
    nextb = O; opc = ONone; oco = false; ocbit = false; odis = O; ounw =
    UNone; ofin = O; opay = UNone; oto = None; odl = None; opdl = None;
    ocall = Z0; oalld = false; ob = O; ocur = O; oev = O; ojres = RRun; fi =
    O; ostash = (EDone O); owk = false; now = Z0; nexta = O; nexte = O;
    tops = (fun _ -> O); bots = (fun _ -> O); botd = (fun _ -> O); sent =
    (fun _ -> O); byield = (fun _ -> false); epush = (fun _ -> O); epop =
    (fun _ -> O); ernd = (fun _ -> O); dpush = (fun _ -> O); dpop = (fun _ ->
    O); olast = LNone; rer = O; rerp = None; oleft = false }

type aux = { owner : nat; amap : (nat -> nat); cmap : (z * nat) list;
             kmap : (nat -> nat); ctgt : (nat -> nat); ph : nat; nest : 
             nat; selmode : bool; pcan : bool; qt : z; qh : z;
             opk : (nat -> z) }

type ast = st * aux

(** val aux0 : aux **)

let aux0 =
  { owner = O; amap = (fun _ -> O); cmap = []; kmap = (fun _ -> O); ctgt =
    (fun _ -> O); ph = O; nest = O; selmode = false; pcan = false; qt = Z0;
    qh = Z0; opk = (fun _ -> Z0) }

(** val m_init : ast **)

let m_init =
  (init, aux0)

(** val set_owner : aux -> nat -> aux **)

let set_owner x v =
  { owner = v; amap = x.amap; cmap = x.cmap; kmap = x.kmap; ctgt = x.ctgt;
    ph = x.ph; nest = x.nest; selmode = x.selmode; pcan = x.pcan; qt = x.qt;
    qh = x.qh; opk = x.opk }

(** val set_amap : aux -> (nat -> nat) -> aux **)

let set_amap x v =
  { owner = x.owner; amap = v; cmap = x.cmap; kmap = x.kmap; ctgt = x.ctgt;
    ph = x.ph; nest = x.nest; selmode = x.selmode; pcan = x.pcan; qt = x.qt;
    qh = x.qh; opk = x.opk }

(** val set_cmap : aux -> (z * nat) list -> aux **)

let set_cmap x v =
  { owner = x.owner; amap = x.amap; cmap = v; kmap = x.kmap; ctgt = x.ctgt;
    ph = x.ph; nest = x.nest; selmode = x.selmode; pcan = x.pcan; qt = x.qt;
    qh = x.qh; opk = x.opk }

(** val set_kmap : aux -> (nat -> nat) -> aux **)

let set_kmap x v =
  { owner = x.owner; amap = x.amap; cmap = x.cmap; kmap = v; ctgt = x.ctgt;
    ph = x.ph; nest = x.nest; selmode = x.selmode; pcan = x.pcan; qt = x.qt;
    qh = x.qh; opk = x.opk }

(** val set_ctgt : aux -> (nat -> nat) -> aux **)

let set_ctgt x v =
  { owner = x.owner; amap = x.amap; cmap = x.cmap; kmap = x.kmap; ctgt = v;
    ph = x.ph; nest = x.nest; selmode = x.selmode; pcan = x.pcan; qt = x.qt;
    qh = x.qh; opk = x.opk }

(** val set_ph : aux -> nat -> aux **)

let set_ph x v =
  { owner = x.owner; amap = x.amap; cmap = x.cmap; kmap = x.kmap; ctgt =
    x.ctgt; ph = v; nest = x.nest; selmode = x.selmode; pcan = x.pcan; qt =
    x.qt; qh = x.qh; opk = x.opk }

(** val set_nest : aux -> nat -> aux **)

let set_nest x v =
  { owner = x.owner; amap = x.amap; cmap = x.cmap; kmap = x.kmap; ctgt =
    x.ctgt; ph = x.ph; nest = v; selmode = x.selmode; pcan = x.pcan; qt =
    x.qt; qh = x.qh; opk = x.opk }

(** val set_selmode : aux -> bool -> aux **)

let set_selmode x v =
  { owner = x.owner; amap = x.amap; cmap = x.cmap; kmap = x.kmap; ctgt =
    x.ctgt; ph = x.ph; nest = x.nest; selmode = v; pcan = x.pcan; qt = x.qt;
    qh = x.qh; opk = x.opk }

(** val set_pcan : aux -> bool -> aux **)

let set_pcan x v =
  { owner = x.owner; amap = x.amap; cmap = x.cmap; kmap = x.kmap; ctgt =
    x.ctgt; ph = x.ph; nest = x.nest; selmode = x.selmode; pcan = v; qt =
    x.qt; qh = x.qh; opk = x.opk }

(** val set_qt : aux -> z -> aux **)

let set_qt x v =
  { owner = x.owner; amap = x.amap; cmap = x.cmap; kmap = x.kmap; ctgt =
    x.ctgt; ph = x.ph; nest = x.nest; selmode = x.selmode; pcan = x.pcan;
    qt = v; qh = x.qh; opk = x.opk }

(** val set_qh : aux -> z -> aux **)

let set_qh x v =
  { owner = x.owner; amap = x.amap; cmap = x.cmap; kmap = x.kmap; ctgt =
    x.ctgt; ph = x.ph; nest = x.nest; selmode = x.selmode; pcan = x.pcan;
    qt = x.qt; qh = v; opk = x.opk }

(** val set_opk : aux -> (nat -> z) -> aux **)

let set_opk x v =
  { owner = x.owner; amap = x.amap; cmap = x.cmap; kmap = x.kmap; ctgt =
    x.ctgt; ph = x.ph; nest = x.nest; selmode = x.selmode; pcan = x.pcan;
    qt = x.qt; qh = x.qh; opk = v }

(** val zb : z -> bool **)

let zb v =
  negb (Z.eqb v Z0)

(** val bz : bool -> z **)

let bz = function
| true -> Zpos XH
| false -> Z0

(** val opc_n : opcT -> nat **)

let opc_n = function
| ONone -> O
| OBody -> S O
| OA2 -> S (S O)
| OA3 -> S (S (S O))
| P1 -> S (S (S (S O)))
| P2 -> S (S (S (S (S O))))
| P2b -> S (S (S (S (S (S O)))))
| P3 -> S (S (S (S (S (S (S O))))))
| P4 -> S (S (S (S (S (S (S (S O)))))))
| P4t -> S (S (S (S (S (S (S (S (S O))))))))
| P5 -> S (S (S (S (S (S (S (S (S (S O)))))))))
| P5w -> S (S (S (S (S (S (S (S (S (S (S O))))))))))
| P6 -> S (S (S (S (S (S (S (S (S (S (S (S O)))))))))))
| PRun -> S (S (S (S (S (S (S (S (S (S (S (S (S O))))))))))))
| Cpre -> S (S (S (S (S (S (S (S (S (S (S (S (S (S O)))))))))))))
| C0 -> S (S (S (S (S (S (S (S (S (S (S (S (S (S (S O))))))))))))))
| CJ -> S (S (S (S (S (S (S (S (S (S (S (S (S (S (S (S O)))))))))))))))
| C1 -> S (S (S (S (S (S (S (S (S (S (S (S (S (S (S (S (S O))))))))))))))))
| C2 ->
  S (S (S (S (S (S (S (S (S (S (S (S (S (S (S (S (S (S O)))))))))))))))))
| C3 ->
  S (S (S (S (S (S (S (S (S (S (S (S (S (S (S (S (S (S (S O))))))))))))))))))
| OUnw ->
  S (S (S (S (S (S (S (S (S (S (S (S (S (S (S (S (S (S (S (S
    O)))))))))))))))))))
| FC0 ->
  S (S (S (S (S (S (S (S (S (S (S (S (S (S (S (S (S (S (S (S (S
    O))))))))))))))))))))
| FC1 ->
  S (S (S (S (S (S (S (S (S (S (S (S (S (S (S (S (S (S (S (S (S (S
    O)))))))))))))))))))))
| FD0 ->
  S (S (S (S (S (S (S (S (S (S (S (S (S (S (S (S (S (S (S (S (S (S (S
    O))))))))))))))))))))))
| FE0 ->
  S (S (S (S (S (S (S (S (S (S (S (S (S (S (S (S (S (S (S (S (S (S (S (S
    O)))))))))))))))))))))))
| FE1 ->
  S (S (S (S (S (S (S (S (S (S (S (S (S (S (S (S (S (S (S (S (S (S (S (S (S
    O))))))))))))))))))))))))
| OExit ->
  S (S (S (S (S (S (S (S (S (S (S (S (S (S (S (S (S (S (S (S (S (S (S (S (S
    (S O)))))))))))))))))))))))))
| OBug ->
  S (S (S (S (S (S (S (S (S (S (S (S (S (S (S (S (S (S (S (S (S (S (S (S (S
    (S (S O))))))))))))))))))))))))))

(** val apc_n : apc -> nat **)

let apc_n = function
| ANone -> O
| ATop -> S O
| AS0 -> S (S O)
| AS1 -> S (S (S O))
| ASusp -> S (S (S (S O)))
| ABot -> S (S (S (S (S O))))
| AD0 -> S (S (S (S (S (S O)))))
| AD1 -> S (S (S (S (S (S (S O))))))
| AD2 -> S (S (S (S (S (S (S (S O)))))))
| AD3 -> S (S (S (S (S (S (S (S (S O))))))))
| AD4 -> S (S (S (S (S (S (S (S (S (S O)))))))))
| AF1 -> S (S (S (S (S (S (S (S (S (S (S O))))))))))
| ADone -> S (S (S (S (S (S (S (S (S (S (S (S O)))))))))))

(** val kpc_n : kpcT -> nat **)

let kpc_n = function
| KNone -> O
| K0 -> S O
| K1 -> S (S O)
| K2 -> S (S (S O))
| K3 -> S (S (S (S O)))
| K4 -> S (S (S (S (S O))))
| KDone -> S (S (S (S (S (S O)))))

(** val at_o : st -> opcT -> bool **)

let at_o s p =
  Nat.eqb (opc_n s.opc) (opc_n p)

(** val at_a : st -> nat -> apc -> bool **)

let at_a s a p =
  Nat.eqb (apc_n (s.pc a)) (apc_n p)

(** val at_k : st -> nat -> kpcT -> bool **)

let at_k s e p =
  Nat.eqb (kpc_n (s.kpc e)) (kpc_n p)

(** val bind_z : z -> z -> z option **)

let bind_z cur o =
  if Z.eqb cur Z0 then Some o else if Z.eqb cur o then Some cur else None

(** val bind_obj : (nat -> z) -> nat -> z -> (nat -> z) option **)

let bind_obj m k o =
  if Z.eqb (m k) Z0
  then Some (upd m k o)
  else if Z.eqb (m k) o then Some m else None

(** val lookup : (z * nat) list -> z -> nat option **)

let rec lookup l k =
  match l with
  | [] -> None
  | p :: r -> let (k', n) = p in if Z.eqb k k' then Some n else lookup r k

(** val w64 : z **)

let w64 =
  Zpos (XO (XO (XO (XO (XO (XO (XO (XO (XO (XO (XO (XO (XO (XO (XO (XO (XO
    (XO (XO (XO (XO (XO (XO (XO (XO (XO (XO (XO (XO (XO (XO (XO (XO (XO (XO
    (XO (XO (XO (XO (XO (XO (XO (XO (XO (XO (XO (XO (XO (XO (XO (XO (XO (XO
    (XO (XO (XO (XO (XO (XO (XO (XO (XO (XO (XO
    XH))))))))))))))))))))))))))))))))))))))))))))))))))))))))))))))))

(** val wz : z -> z **)

let wz v =
  Z.modulo v w64

(** val oword : st -> nat -> z **)

let oword s n =
  Z.add (Z.add (bz s.ocbit) (Z.mul (Zpos (XO XH)) (Z.of_nat s.odis)))
    (Z.mul (Zpos (XO XH)) (Z.of_nat n))

(** val steps : st -> action list -> st option **)

let rec steps s = function
| [] -> Some s
| a :: l' ->
  (match step current s a with
   | Some s' -> steps s' l'
   | None -> None)

(** val osilent : st -> bool **)

let osilent s =
  match s.opc with
  | PRun -> negb (s.inl s.ocur)
  | OUnw -> true
  | FC0 -> negb ((&&) (Nat.ltb s.fi s.total) (s.sel s.fi))
  | FE1 -> true
  | _ -> false

(** val norm : st -> nat -> action list **)

let rec norm s = function
| O -> []
| S f ->
  if osilent s
  then (match step current s OStep with
        | Some s' -> OStep :: (norm s' f)
        | None -> [])
  else []

type plan = { acts : action list; nxt : aux }

(** val skip : aux -> plan option **)

let skip x =
  Some { acts = []; nxt = x }

(** val go : action list -> aux -> plan option **)

let go l x =
  Some { acts = l; nxt = x }

(** val own :
    st -> (st -> bool) -> (st -> action list) -> (st -> st -> aux option) ->
    plan option **)

let own s chk main k =
  let pre =
    norm s (S (S (S (S (S (S (S (S (S (S (S (S (S (S (S (S (S (S (S (S (S (S
      (S (S (S (S (S (S (S (S (S (S (S (S (S (S (S (S (S (S (S (S (S (S (S (S
      (S (S (S (S (S (S (S (S (S (S (S (S (S (S (S (S (S (S (S (S (S (S (S (S
      (S (S (S (S (S (S (S (S (S (S (S (S (S (S (S (S (S (S (S (S (S (S (S (S
      (S (S
      O))))))))))))))))))))))))))))))))))))))))))))))))))))))))))))))))))))))))))))))))))))))))))))))))
  in
  (match steps s pre with
   | Some s1 ->
     if chk s1
     then let m = main s1 in
          (match steps s1 m with
           | Some s2 ->
             (match k s1 s2 with
              | Some x' -> Some { acts = (app pre m); nxt = x' }
              | None -> None)
           | None -> None)
     else None
   | None -> None)

(** val keep : aux -> st -> st -> aux option **)

let keep x _ _ =
  Some x

(** val ost : st -> action list **)

let ost _ =
  OStep :: []

(** val none_acts : st -> action list **)

let none_acts _ =
  []

(** val arm_of : aux -> nat -> nat option **)

let arm_of x ta =
  match x.kmap ta with
  | O -> (match x.amap ta with
          | O -> None
          | S a -> Some a)
  | S a -> Some a

(** val is_owner : aux -> nat -> bool **)

let is_owner x ta =
  match x.owner with
  | O -> false
  | S o -> Nat.eqb o ta

(** val find_k : st -> nat -> kpcT -> nat -> nat option **)

let rec find_k s a p = function
| O -> None
| S m ->
  (match find_k s a p m with
   | Some e -> Some e
   | None -> if (&&) (Nat.eqb (s.earm m) a) (at_k s m p) then Some m else None)

(** val user_a : st -> nat -> bool **)

let user_a s a =
  (||) (at_a s a ATop) (at_a s a ABot)

(** val res_ok : aresult -> bool **)

let res_ok = function
| ROk -> true
| _ -> false

(** val res_panic : aresult -> bool **)

let res_panic = function
| RPanic _ -> true
| _ -> false

(** val tick_to : st -> z -> action list **)

let tick_to s t =
  if Z.ltb s.now t then (Tick t) :: [] else []

(** val last_ok : st -> nat -> nat -> bool **)

let last_ok s tok0 rnd =
  match s.olast with
  | LOk e -> (&&) (Nat.eqb (s.earm e) tok0) (Nat.eqb (s.ernd e) (S rnd))
  | _ -> false

(** val last_is : st -> lastret -> bool **)

let last_is s l =
  match s.olast with
  | LTimeout -> (match l with
                 | LTimeout -> true
                 | _ -> false)
  | LFinished -> (match l with
                  | LFinished -> true
                  | _ -> false)
  | LRaised -> (match l with
                | LRaised -> true
                | _ -> false)
  | _ -> false

(** val sel_close : st -> aux -> action list **)

let sel_close s x =
  if (&&) ((&&) x.selmode (at_o s OBody))
       (match s.olast with
        | LOk _ -> true
        | _ -> false)
  then OClose :: []
  else []

(** val pre_close : st -> aux -> action list **)

let pre_close s x =
  if (&&) ((&&) x.selmode (at_o s OBody))
       (match s.olast with
        | LOk _ -> true
        | _ -> false)
  then OClose :: []
  else if (&&) (at_o s OBody) (cancel_due s) then OCancelled :: [] else []

(** val ownc :
    (st -> aux -> action list) -> st -> aux -> (st -> bool) -> (st -> action
    list) -> (st -> st -> aux option) -> plan option **)

let ownc cl s x chk main k =
  let pre =
    norm s (S (S (S (S (S (S (S (S (S (S (S (S (S (S (S (S (S (S (S (S (S (S
      (S (S (S (S (S (S (S (S (S (S (S (S (S (S (S (S (S (S (S (S (S (S (S (S
      (S (S (S (S (S (S (S (S (S (S (S (S (S (S (S (S (S (S (S (S (S (S (S (S
      (S (S (S (S (S (S (S (S (S (S (S (S (S (S (S (S (S (S (S (S (S (S (S (S
      (S (S
      O))))))))))))))))))))))))))))))))))))))))))))))))))))))))))))))))))))))))))))))))))))))))))))))))
  in
  (match steps s pre with
   | Some s1 ->
     let c = cl s1 x in
     (match steps s1 c with
      | Some s2 ->
        (match own s2 chk main k with
         | Some p -> Some { acts = (app pre (app c p.acts)); nxt = p.nxt }
         | None -> None)
      | None -> None)
   | None -> None)

(** val plan_ev : st -> aux -> z list -> plan option **)

let plan_ev s x = function
| [] -> None
| code :: l ->
  (match l with
   | [] -> None
   | zta :: l0 ->
     (match l0 with
      | [] -> None
      | o :: l1 ->
        (match l1 with
         | [] -> None
         | v :: l2 ->
           (match l2 with
            | [] ->
              let ta = Z.to_nat zta in
              let isown = (&&) (is_owner x ta) (Nat.eqb (x.kmap ta) O) in
              (match code with
               | Zpos p ->
                 (match p with
                  | XI p0 ->
                    (match p0 with
                     | XI p1 ->
                       (match p1 with
                        | XI p2 ->
                          (match p2 with
                           | XI p3 ->
                             (match p3 with
                              | XI p4 ->
                                (match p4 with
                                 | XH ->
                                   if isown
                                   then if negb (Nat.eqb x.nest O)
                                        then if Z.eqb v (oword s x.nest)
                                             then skip x
                                             else None
                                        else if Nat.eqb x.ph (S (S O))
                                             then own s (fun s1 ->
                                                    (&&) (at_o s1 P5w)
                                                      (Z.eqb v (oword s1 O)))
                                                    (fun s1 ->
                                                    if cancel_due s1
                                                    then OStep :: []
                                                    else []) (fun s1 _ ->
                                                    Some
                                                    (set_ph x
                                                      (if cancel_due s1
                                                       then S (S (S (S (S (S
                                                              (S O))))))
                                                       else S (S (S (S (S (S
                                                              (S (S O))))))))))
                                             else if Z.eqb v (oword s O)
                                                  then skip x
                                                  else None
                                   else skip x
                                 | _ -> None)
                              | XO _ -> None
                              | XH ->
                                if isown
                                then own s (fun s1 ->
                                       (&&) (at_o s1 OA2)
                                         (Z.eqb v (wz s1.cnt))) ost (keep x)
                                else None)
                           | XO p3 ->
                             (match p3 with
                              | XI _ -> None
                              | XO p4 ->
                                (match p4 with
                                 | XO p5 ->
                                   (match p5 with
                                    | XH ->
                                      if isown
                                      then ownc pre_close s x (fun s1 ->
                                             (&&)
                                               ((&&)
                                                 ((&&) (at_o s1 FC0)
                                                   (Nat.ltb s1.fi s1.total))
                                                 (s1.sel s1.fi))
                                               (eqb (zb v) (s1.jst s1.fi)))
                                             ost (keep x)
                                      else skip x
                                    | _ -> None)
                                 | _ -> None)
                              | XH ->
                                if isown
                                then own s (fun s1 -> at_o s1 OExit)
                                       none_acts (keep x)
                                else None)
                           | XH ->
                             if isown
                             then own s (fun s1 -> at_o s1 OExit) none_acts
                                    (keep x)
                             else None)
                        | XO p2 ->
                          (match p2 with
                           | XI p3 ->
                             (match p3 with
                              | XO p4 ->
                                (match p4 with
                                 | XH ->
                                   (match arm_of x ta with
                                    | Some a ->
                                      (match find_k s a K4 s.nexte with
                                       | Some e ->
                                         if Z.eqb v (Z.of_nat (s.kern a))
                                         then go ((KStep e) :: []) x
                                         else None
                                       | None -> None)
                                    | None -> None)
                                 | _ -> None)
                              | _ -> None)
                           | XO p3 ->
                             (match p3 with
                              | XI p4 ->
                                (match p4 with
                                 | XI _ -> None
                                 | XO p5 ->
                                   (match p5 with
                                    | XH ->
                                      (match arm_of x ta with
                                       | Some a ->
                                         (match find_k s a K3 s.nexte with
                                          | Some e ->
                                            (match bind_obj x.opk (s.kw e) o with
                                             | Some m ->
                                               go ((KStep e) :: [])
                                                 (set_opk x m)
                                             | None -> None)
                                          | None ->
                                            if at_a s a AD4
                                            then (match bind_obj x.opk
                                                          (s.aw a) o with
                                                  | Some m ->
                                                    go ((AStep a) :: [])
                                                      (set_opk x m)
                                                  | None -> None)
                                            else skip x)
                                       | None -> skip x)
                                    | _ -> None)
                                 | XH ->
                                   if (&&) isown
                                        ((||) (at_o s P2) (at_o s P4))
                                   then (match s.evq with
                                         | [] -> None
                                         | _ :: _ ->
                                           (match bind_z x.qh o with
                                            | Some q ->
                                              go (OStep :: []) (set_qh x q)
                                            | None -> None))
                                   else skip x)
                              | XO p4 ->
                                (match p4 with
                                 | XH ->
                                   if isown
                                   then own s (fun s1 ->
                                          (&&) (at_o s1 P4t)
                                            (eqb (zb v)
                                              (match s1.towake with
                                               | Some _ -> true
                                               | None -> false))) ost 
                                          (keep x)
                                   else None
                                 | _ -> None)
                              | XH ->
                                if (&&) ((&&) isown (at_o s P5))
                                     (Nat.eqb x.ph O)
                                then (match bind_obj x.opk s.ob o with
                                      | Some m ->
                                        own s (fun _ -> true) ost
                                          (fun _ s2 -> Some
                                          (set_ph (set_opk x m)
                                            (if at_o s2 P5w
                                             then S O
                                             else S (S (S (S (S (S (S (S (S
                                                    (S (S (S O))))))))))))))
                                      | None -> None)
                                else skip x)
                           | XH ->
                             if isown
                             then own s (fun s1 -> at_o s1 OBody) (fun s1 ->
                                    app (tick_to s1 v) ((OPoll
                                      (if Z.eqb o Z0
                                       then None
                                       else Some (Z.sub o (Zpos XH)))) :: []))
                                    (keep x)
                             else None)
                        | XH ->
                          (match arm_of x ta with
                           | Some a -> go ((AFinish a) :: []) x
                           | None -> None))
                     | XO p1 ->
                       (match p1 with
                        | XI p2 ->
                          (match p2 with
                           | XI p3 ->
                             (match p3 with
                              | XI p4 ->
                                (match p4 with
                                 | XH ->
                                   if isown
                                   then (match x.nest with
                                         | O ->
                                           own s (fun s1 ->
                                             (&&)
                                               ((||) (at_o s1 C1)
                                                 (at_o s1 FE0))
                                               (Z.eqb v (oword s1 O))) ost
                                             (keep x)
                                         | S n ->
                                           if Z.eqb v (oword s (S n))
                                           then go [] (set_nest x n)
                                           else None)
                                   else skip x
                                 | _ -> None)
                              | XO p4 ->
                                (match p4 with
                                 | XH ->
                                   (match arm_of x ta with
                                    | Some a ->
                                      if (&&) (at_a s a AD2)
                                           (Z.eqb v (wz s.cnt))
                                      then go ((AStep a) :: []) x
                                      else None
                                    | None -> None)
                                 | _ -> None)
                              | XH -> None)
                           | XO p3 ->
                             (match p3 with
                              | XI _ -> None
                              | XO p4 ->
                                (match p4 with
                                 | XH ->
                                   if isown
                                   then own s (fun s1 -> at_o s1 C3) ost
                                          (keep x)
                                   else None
                                 | _ -> None)
                              | XH ->
                                (match arm_of x ta with
                                 | Some a ->
                                   (match find_k s a K3 s.nexte with
                                    | Some e ->
                                      (match bind_obj x.opk (s.kw e) o with
                                       | Some m ->
                                         go ((KStep e) :: []) (set_opk x m)
                                       | None -> None)
                                    | None ->
                                      if at_a s a AD4
                                      then (match bind_obj x.opk (s.aw a) o with
                                            | Some m ->
                                              go ((AStep a) :: [])
                                                (set_opk x m)
                                            | None -> None)
                                      else skip x)
                                 | None -> skip x))
                           | XH ->
                             if isown
                             then own s (fun s1 -> at_o s1 OBody) (fun _ ->
                                    OClose :: []) (keep x)
                             else None)
                        | XO p2 ->
                          (match p2 with
                           | XI p3 ->
                             (match p3 with
                              | XI _ -> None
                              | XO p4 ->
                                (match p4 with
                                 | XI _ -> None
                                 | XO p5 ->
                                   (match p5 with
                                    | XH ->
                                      if (&&) isown
                                           ((||) (at_o s C1) (at_o s C2))
                                      then if eqb (zb v) (res_panic s.ojres)
                                           then skip x
                                           else None
                                      else skip x
                                    | _ -> None)
                                 | XH ->
                                   (match arm_of x ta with
                                    | Some a ->
                                      (match find_k s a K0 s.nexte with
                                       | Some e ->
                                         if Z.eqb v (Z.of_nat (s.kern a))
                                         then go ((KStep e) :: []) x
                                         else None
                                       | None -> None)
                                    | None -> None))
                              | XH -> go [] (set_kmap x (upd x.kmap ta O)))
                           | XO p3 ->
                             (match p3 with
                              | XI p4 ->
                                (match p4 with
                                 | XO p5 ->
                                   (match p5 with
                                    | XH ->
                                      if (&&) isown
                                           ((||) (Nat.eqb x.ph (S (S (S O))))
                                             (Nat.eqb x.ph (S (S (S (S (S (S
                                               (S (S (S (S O))))))))))))
                                      then go [] (set_ph x O)
                                      else skip x
                                    | _ -> None)
                                 | _ -> None)
                              | XO p4 ->
                                (match p4 with
                                 | XI _ -> None
                                 | XO p5 ->
                                   (match p5 with
                                    | XH ->
                                      if zb v
                                      then skip x
                                      else go []
                                             (set_ctgt x (upd x.ctgt ta O))
                                    | _ -> None)
                                 | XH ->
                                   if isown
                                   then if at_o s P6
                                        then own s (fun _ -> true) (fun _ ->
                                               OStep :: (OStep :: []))
                                               (fun s1 s2 ->
                                               if (&&) (at_o s2 P2)
                                                    (Z.eqb v (wz s1.cnt))
                                               then Some x
                                               else None)
                                        else ownc sel_close s x (fun s1 ->
                                               (&&)
                                                 ((||) (at_o s1 P1)
                                                   (at_o s1 OBody))
                                                 (Z.eqb v (wz s1.cnt)))
                                               (fun s1 ->
                                               if at_o s1 OBody
                                               then (OPoll
                                                      None) :: (OStep :: [])
                                               else OStep :: []) (keep x)
                                   else None)
                              | XH ->
                                (match lookup x.cmap o with
                                 | Some a ->
                                   let x' =
                                     if Nat.eqb (x.amap ta) (S a)
                                     then x
                                     else set_kmap x (upd x.kmap ta (S a))
                                   in
                                   if at_a s a AS0
                                   then if s.cbit a
                                        then None
                                        else go ((AStep a) :: ((AStep
                                               a) :: [])) x'
                                   else if at_a s a AS1
                                        then if s.cbit a
                                             then None
                                             else go ((AStep a) :: []) x'
                                        else if (&&) (user_a s a) (s.inl a)
                                             then go ((AYield a) :: []) x'
                                             else go [] x'
                                 | None -> skip x))
                           | XH ->
                             (match arm_of x ta with
                              | Some a ->
                                if user_a s a
                                then go ((ACancelled a) :: []) x
                                else if (||) (at_a s a AS0) (at_a s a AS1)
                                     then if s.cbit a
                                          then go ((AStep a) :: []) x
                                          else None
                                     else if negb (at_a s a ANone)
                                          then skip x
                                          else None
                              | None -> None))
                        | XH ->
                          (match arm_of x ta with
                           | Some a ->
                             if (&&)
                                  ((&&) (Nat.eqb a (Z.to_nat o))
                                    (at_a s a ABot))
                                  (Nat.eqb (s.bots a) (S (Z.to_nat v)))
                             then skip x
                             else None
                           | None -> None))
                     | XH ->
                       let i = Z.to_nat o in
                       if (&&) (Nat.ltb i s.nexta) (at_a s i ATop)
                       then go []
                              (set_cmap (set_amap x (upd x.amap ta (S i)))
                                ((v, i) :: x.cmap))
                       else None)
                  | XO p0 ->
                    (match p0 with
                     | XI p1 ->
                       (match p1 with
                        | XI p2 ->
                          (match p2 with
                           | XI p3 ->
                             (match p3 with
                              | XI p4 ->
                                (match p4 with
                                 | XH ->
                                   if isown
                                   then if negb (Nat.eqb x.nest O)
                                        then if Z.eqb v (oword s x.nest)
                                             then skip x
                                             else None
                                        else if Nat.eqb x.ph (S (S (S (S (S
                                                  (S (S (S O))))))))
                                             then own s (fun s1 ->
                                                    (&&) (at_o s1 P5w)
                                                      (Z.eqb v (oword s1 O)))
                                                    (fun s1 ->
                                                    app
                                                      (if (||)
                                                            ((||)
                                                              (s1.tok s1.ob)
                                                              (cancel_due s1))
                                                            s1.owk
                                                       then []
                                                       else (match s1.opdl with
                                                             | Some d ->
                                                               tick_to s1 d
                                                             | None -> []))
                                                      (OStep :: []))
                                                    (fun _ s2 -> Some
                                                    (set_ph x
                                                      (if at_o s2 P6
                                                       then S (S (S (S (S (S
                                                              (S (S (S
                                                              O))))))))
                                                       else O)))
                                             else if Nat.eqb x.ph (S (S (S (S
                                                       (S (S (S O)))))))
                                                  then if Z.eqb v (oword s O)
                                                       then go [] (set_ph x O)
                                                       else None
                                                  else if Z.eqb v (oword s O)
                                                       then skip x
                                                       else None
                                   else skip x
                                 | _ -> None)
                              | XO p4 ->
                                (match p4 with
                                 | XH ->
                                   (match arm_of x ta with
                                    | Some a ->
                                      if (&&) (at_a s a AD3)
                                           (eqb (zb v)
                                             (match s.towake with
                                              | Some _ -> true
                                              | None -> false))
                                      then go ((AStep a) :: []) x
                                      else None
                                    | None -> None)
                                 | _ -> None)
                              | XH ->
                                if isown
                                then own s (fun s1 ->
                                       (&&) (at_o s1 OBody)
                                         (Z.eqb v (Z.of_nat s1.total)))
                                       (fun _ -> OAdd :: []) (keep x)
                                else None)
                           | XO p3 ->
                             (match p3 with
                              | XI _ -> None
                              | XO p4 ->
                                (match p4 with
                                 | XO p5 ->
                                   (match p5 with
                                    | XH ->
                                      (match arm_of x ta with
                                       | Some a ->
                                         if at_a s a AF1
                                         then go ((AStep a) :: []) x
                                         else if negb (zb v)
                                              then None
                                              else skip x
                                       | None -> skip x)
                                    | _ -> None)
                                 | _ -> None)
                              | XH ->
                                if isown
                                then own s (fun s1 -> at_o s1 OBody)
                                       none_acts (fun _ _ -> Some
                                       (set_selmode x true))
                                else None)
                           | XH ->
                             if isown
                             then own s (fun s1 -> at_o s1 OBody) (fun _ ->
                                    (OPanicA (S (S (S (S (S (S (S (S (S
                                    O)))))))))) :: []) (keep x)
                             else None)
                        | XO p2 ->
                          (match p2 with
                           | XI p3 ->
                             (match p3 with
                              | XO p4 ->
                                (match p4 with
                                 | XH ->
                                   (match arm_of x ta with
                                    | Some a ->
                                      (match find_k s a K2 s.nexte with
                                       | Some e ->
                                         if eqb (zb v)
                                              (match s.towake with
                                               | Some _ -> true
                                               | None -> false)
                                         then go ((KStep e) :: []) x
                                         else None
                                       | None -> None)
                                    | None -> None)
                                 | _ -> None)
                              | _ -> None)
                           | XO p3 ->
                             (match p3 with
                              | XI p4 ->
                                (match p4 with
                                 | XI _ -> None
                                 | XO p5 ->
                                   (match p5 with
                                    | XH ->
                                      if isown
                                      then if Nat.eqb x.ph (S (S (S (S (S
                                                O)))))
                                           then if (&&)
                                                     (eqb (s.tok s.ob) (zb v))
                                                     (Z.eqb (x.opk s.ob) o)
                                                then if zb v
                                                     then own s (fun s1 ->
                                                            at_o s1 P5) ost
                                                            (fun _ _ -> Some
                                                            (set_ph x O))
                                                     else own s (fun s1 ->
                                                            at_o s1 P5) ost
                                                            (fun _ s2 -> Some
                                                            (set_ph x
                                                              (if at_o s2 P5w
                                                               then S (S O)
                                                               else S (S (S
                                                                    (S (S (S
                                                                    (S O)))))))))
                                                else None
                                           else if Nat.eqb x.ph (S (S (S (S
                                                     (S (S (S (S (S (S (S
                                                     O)))))))))))
                                                then go [] (set_ph x O)
                                                else skip x
                                      else skip x
                                    | _ -> None)
                                 | XH ->
                                   if zb v
                                   then (match arm_of x ta with
                                         | Some a ->
                                           (match find_k s a K1 s.nexte with
                                            | Some e ->
                                              (match bind_z x.qt o with
                                               | Some q ->
                                                 go ((KStep e) :: [])
                                                   (set_qt x q)
                                               | None -> None)
                                            | None ->
                                              if at_a s a AD1
                                              then (match bind_z x.qt o with
                                                    | Some q ->
                                                      go ((AStep a) :: [])
                                                        (set_qt x q)
                                                    | None -> None)
                                              else skip x)
                                         | None -> skip x)
                                   else skip x)
                              | XO p4 ->
                                (match p4 with
                                 | XI _ -> None
                                 | XO p5 ->
                                   (match p5 with
                                    | XH ->
                                      (match x.ctgt ta with
                                       | O ->
                                         go [] (set_ctgt x (upd x.ctgt ta O))
                                       | S n ->
                                         (match n with
                                          | O ->
                                            if (&&) ((&&) (zb v) s.oco)
                                                 (negb (at_o s ONone))
                                            then go (CancelOwner :: [])
                                                   (set_ctgt x
                                                     (upd x.ctgt ta O))
                                            else go []
                                                   (set_ctgt x
                                                     (upd x.ctgt ta O))
                                          | S _ ->
                                            go []
                                              (set_ctgt x (upd x.ctgt ta O))))
                                    | _ -> None)
                                 | XH ->
                                   if isown
                                   then own s (fun s1 -> at_o s1 P3) ost
                                          (keep x)
                                   else None)
                              | XH -> go [] (set_kmap x (upd x.kmap ta O)))
                           | XH ->
                             if isown
                             then own s (fun s1 -> at_o s1 OBody) none_acts
                                    (fun _ _ -> Some
                                    (set_ctgt x
                                      (upd x.ctgt ta (S (S (Z.to_nat o))))))
                             else None)
                        | XH ->
                          (match arm_of x ta with
                           | Some a -> go ((ANext a) :: []) x
                           | None -> None))
                     | XO p1 ->
                       (match p1 with
                        | XI p2 ->
                          (match p2 with
                           | XI p3 ->
                             (match p3 with
                              | XI p4 ->
                                (match p4 with
                                 | XH ->
                                   if isown
                                   then let nested =
                                          if Z.eqb v (oword s x.nest)
                                          then go [] (set_nest x (S x.nest))
                                          else None
                                        in
                                        if Nat.eqb x.nest O
                                        then (match ownc pre_close s x
                                                      (fun s1 ->
                                                      (&&)
                                                        ((||) (at_o s1 C0)
                                                          (at_o s1 FD0))
                                                        (Z.eqb v (oword s1 O)))
                                                      ost (keep x) with
                                              | Some p5 -> Some p5
                                              | None -> nested)
                                        else nested
                                   else skip x
                                 | _ -> None)
                              | XO p4 ->
                                (match p4 with
                                 | XH ->
                                   (match arm_of x ta with
                                    | Some a ->
                                      if (&&) (at_a s a AD0)
                                           (Z.eqb v (Z.of_nat (s.kern a)))
                                      then go ((AStep a) :: []) x
                                      else None
                                    | None -> None)
                                 | _ -> None)
                              | XH -> None)
                           | XO p3 ->
                             (match p3 with
                              | XI p4 ->
                                (match p4 with
                                 | XH ->
                                   if (&&)
                                        ((&&) isown
                                          ((||) (at_o s P2) (at_o s P4)))
                                        ((||) (Z.eqb x.qt Z0) (Z.eqb x.qt o))
                                   then (match s.evq with
                                         | [] ->
                                           (match bind_z x.qt o with
                                            | Some q ->
                                              go (OStep :: []) (set_qt x q)
                                            | None -> None)
                                         | _ :: _ -> None)
                                   else if (&&) ((&&) isown (at_o s OExit))
                                             (Z.eqb x.qt o)
                                        then (match s.evq with
                                              | [] -> skip x
                                              | _ :: _ -> None)
                                        else skip x
                                 | _ -> None)
                              | XO p4 ->
                                (match p4 with
                                 | XH ->
                                   if isown
                                   then own s (fun s1 ->
                                          (&&) (at_o s1 C2)
                                            (eqb (zb v) s1.ispan)) ost
                                          (keep x)
                                   else None
                                 | _ -> None)
                              | XH ->
                                if (&&) isown (Nat.eqb x.ph (S O))
                                then if Z.eqb (x.opk s.ob) o
                                     then if zb v
                                          then own s (fun s1 ->
                                                 (&&) (at_o s1 P5w)
                                                   (s1.tok s1.ob)) ost
                                                 (fun _ _ -> Some
                                                 (set_ph x O))
                                          else own s (fun s1 -> at_o s1 P5w)
                                                 (fun s1 ->
                                                 app
                                                   (match s1.opdl with
                                                    | Some d -> tick_to s1 d
                                                    | None -> [])
                                                   (OStep :: [])) (fun _ _ ->
                                                 Some (set_ph x O))
                                     else None
                                else if (&&) isown
                                          (Nat.eqb x.ph (S (S (S (S (S (S (S
                                            (S (S (S (S (S O)))))))))))))
                                     then if (&&) (zb v)
                                               (Z.eqb (x.opk s.ob) o)
                                          then go [] (set_ph x O)
                                          else None
                                     else skip x)
                           | XH ->
                             if isown
                             then let kind =
                                    Z.to_nat (Z.modulo o (Zpos (XO (XO XH))))
                                  in
                                  let r =
                                    Z.to_nat (Z.div o (Zpos (XO (XO XH))))
                                  in
                                  (match kind with
                                   | O ->
                                     own s (fun s1 ->
                                       (&&) (at_o s1 OBody)
                                         (last_ok s1
                                           (Nat.modulo r (S (S (S (S (S (S (S
                                             (S (S (S (S (S (S (S (S (S
                                             O)))))))))))))))))
                                           (Nat.div r (S (S (S (S (S (S (S (S
                                             (S (S (S (S (S (S (S (S
                                             O))))))))))))))))))) none_acts
                                       (keep x)
                                   | S n ->
                                     (match n with
                                      | O ->
                                        if at_o s P6
                                        then own s (fun _ -> true) (fun s1 ->
                                               app (tick_to s1 v)
                                                 (OStep :: [])) (fun _ s2 ->
                                               if (&&) (at_o s2 OBody)
                                                    (last_is s2 LTimeout)
                                               then Some x
                                               else None)
                                        else None
                                      | S n0 ->
                                        (match n0 with
                                         | O ->
                                           own s (fun s1 ->
                                             (&&) (at_o s1 OBody)
                                               (last_is s1 LFinished))
                                             none_acts (keep x)
                                         | S _ ->
                                           if at_o s OUnw
                                           then go (OCatch :: []) x
                                           else None)))
                             else None)
                        | XO p2 ->
                          (match p2 with
                           | XI p3 ->
                             (match p3 with
                              | XI _ -> None
                              | XO p4 ->
                                (match p4 with
                                 | XO p5 ->
                                   (match p5 with
                                    | XH ->
                                      if (&&) isown (at_o s CJ)
                                      then own s (fun s1 ->
                                             (&&) (negb (s1.jst s1.ocur))
                                               (eqb (zb v)
                                                 (res_ok (s1.ares s1.ocur))))
                                             ost (keep x)
                                      else skip x
                                    | _ -> None)
                                 | _ -> None)
                              | XH ->
                                (match lookup x.cmap o with
                                 | Some a ->
                                   go []
                                     (if Nat.eqb (x.amap ta) (S a)
                                      then x
                                      else set_kmap x (upd x.kmap ta (S a)))
                                 | None -> skip x))
                           | XO p3 ->
                             (match p3 with
                              | XI p4 ->
                                (match p4 with
                                 | XO p5 ->
                                   (match p5 with
                                    | XH ->
                                      if isown
                                      then if (&&) (at_o s P5)
                                                (Nat.eqb x.ph O)
                                           then (match bind_obj x.opk s.ob o with
                                                 | Some m ->
                                                   if eqb (s.tok s.ob) (zb v)
                                                   then if zb v
                                                        then own s (fun _ ->
                                                               true) ost
                                                               (fun _ _ ->
                                                               Some
                                                               (set_ph
                                                                 (set_opk x m)
                                                                 (S (S (S
                                                                 O)))))
                                                        else go []
                                                               (set_ph
                                                                 (set_opk x m)
                                                                 (S (S (S (S
                                                                 (S O))))))
                                                   else None
                                                 | None -> None)
                                           else if Nat.eqb x.ph (S (S (S (S
                                                     (S (S (S (S (S O)))))))))
                                                then go []
                                                       (set_ph x
                                                         (if zb v
                                                          then S (S (S (S (S
                                                                 (S (S (S (S
                                                                 (S O)))))))))
                                                          else S (S (S (S (S
                                                                 (S (S (S (S
                                                                 (S (S
                                                                 O))))))))))))
                                                else skip x
                                      else skip x
                                    | _ -> None)
                                 | _ -> None)
                              | XO p4 ->
                                (match p4 with
                                 | XI _ -> None
                                 | XO p5 ->
                                   (match p5 with
                                    | XH ->
                                      (match x.ctgt ta with
                                       | O ->
                                         if isown
                                         then if at_o s FC1
                                              then own s (fun _ -> true) ost
                                                     (keep x)
                                              else if (&&) s.oco s.ocbit
                                                   then skip x
                                                   else None
                                         else skip x
                                       | S n ->
                                         (match n with
                                          | O ->
                                            if at_o s ONone
                                            then go [] (set_pcan x true)
                                            else if s.oco
                                                 then go (CancelOwner :: []) x
                                                 else None
                                          | S a ->
                                            if isown
                                            then own s (fun s1 ->
                                                   at_o s1 OBody) (fun _ ->
                                                   (ORemove a) :: []) 
                                                   (keep x)
                                            else None))
                                    | _ -> None)
                                 | XH ->
                                   if isown
                                   then own s (fun s1 ->
                                          (&&) (at_o s1 OA3)
                                            (Z.eqb v (Z.of_nat s1.total)))
                                          ost (keep x)
                                   else None)
                              | XH -> go [] (set_ctgt x (upd x.ctgt ta (S O))))
                           | XH ->
                             (match arm_of x ta with
                              | Some a -> go ((APanic (a, (S a))) :: []) x
                              | None -> None))
                        | XH ->
                          (match arm_of x ta with
                           | Some a ->
                             if Nat.eqb a (Z.to_nat o)
                             then go ((ASend a) :: []) x
                             else None
                           | None -> None))
                     | XH ->
                       if isown
                       then own s (fun s1 ->
                              (&&) (at_o s1 OBody)
                                (Z.eqb o (Z.of_nat s1.nexta))) none_acts
                              (keep x)
                       else None)
                  | XH ->
                    (match x.owner with
                     | O ->
                       go ((Start
                         (zb v)) :: (if (&&) x.pcan (zb v)
                                     then CancelOwner :: []
                                     else [])) (set_owner x (S ta))
                     | S _ -> None))
               | _ -> None)
            | _ :: _ -> None))))

(** val accept_ev : ast -> z list -> ast option **)

let accept_ev sx e =
  let (s, x) = sx in
  (match plan_ev s x e with
   | Some p ->
     (match steps s p.acts with
      | Some s' -> Some (s', p.nxt)
      | None -> None)
   | None -> None)

(** val monitors_ok : ast -> bool **)

let monitors_ok sx =
  let s = fst sx in
  (&&)
    ((&&)
      ((&&)
        ((&&) ((&&) (at_o s OExit) s.oleft)
          (match s.evq with
           | [] -> true
           | _ :: _ -> false))
        (forallb (fun a ->
          (&&) ((&&) (negb (s.jst a)) (Nat.eqb (s.dpop a) (S O)))
            (Nat.eqb (s.bots a) (s.sent a))) (seq O s.nexta)))
      (forallb (fun e ->
        (&&) ((&&) (at_k s e KDone) (Nat.eqb (s.epush e) (S O)))
          (Nat.eqb (s.epop e) (S O))) (seq O s.nexte))) (Nat.leb s.rer (S O))

(** val m_init0 : ast **)

let m_init0 =
  m_init

(** val m_accept : ast -> z list -> ast option **)

let m_accept =
  accept_ev

(** val m_final : ast -> bool **)

let m_final =
  monitors_ok
